(* Proof/RBShapeP.v — the shape scraped from internal/rbmutex.go is the proved one, and each of the five facts is
   needed: with any one of them changed there is a schedule that puts a writer and a reader (or two writers) into
   the critical section together. *)
From Coq Require Import ZArith List Bool Lia.
From Verif Require Import Base.Word64 Model.RBMutex Model.RBShape Gen.Consts Proof.RBMutexP.
Import ListNotations.
Open Scope Z_scope.

Lemma scraped_shape : shape_of c_rb_shape = good_shape.
Proof. reflexivity. Qed.

Lemma rb_n_with_pc r t p : rb_n (with_pc r t p) = rb_n r.
Proof. reflexivity. Qed.

Lemma rb_act_n r a : rb_n (rb_act r a) = rb_n r.
Proof.
  destruct a as [[t code] arg]. unfold rb_act, rb_atomic.
  repeat match goal with
         | |- context [match ?x with _ => _ end] => destruct x
         end; reflexivity.
Qed.

Lemma good_is_model r a : 1 <= rb_n r -> rb_act_g good_shape r a = rb_act r a.
Proof.
  intro Hn. destruct a as [[t code] arg]. unfold rb_act_g.
  destruct (Z.eq_dec code 4) as [->|N]; [|destruct code as [|c|c]; try reflexivity; repeat (destruct c as [c|c|]; try reflexivity); contradiction].
  cbn [rb_act]. unfold rb_atomic_g, rb_atomic, scan_start, scan_bound. cbn [good_shape sh_lock_first sh_clear_first sh_scan_from sh_scan_all sh_recheck sh_rollback].
  destruct (tpc r t); try reflexivity.
  change (rb_n (with_bias r false)) with (rb_n r). destruct (Z.ltb_spec 0 (rb_n r)); [reflexivity|lia].
Qed.

Lemma good_run sched : forall r, 1 <= rb_n r -> fold_left (rb_act_g good_shape) sched r = fold_left rb_act sched r.
Proof.
  induction sched as [|a l IH]; intros r Hn; cbn [fold_left]; [reflexivity|]. rewrite good_is_model by exact Hn.
  apply IH. rewrite rb_act_n. exact Hn.
Qed.

(* exclusion for the lock as scraped *)
Lemma scraped_excludes sched n w t : 1 <= n ->
  let r := fold_left (rb_act_g (shape_of c_rb_shape)) sched (newRB n) in
  writing (tpc r w) = true -> reading (tpc r t) = false /\ (writing (tpc r t) = true -> t = w).
Proof.
  intros Hn. rewrite scraped_shape, good_run by exact Hn. apply mutual_exclusion, Hn.
Qed.

Definition run (sh : rbshape) (n : Z) (sched : list (Z * Z * Z)) : rbm := fold_left (rb_act_g sh) sched (newRB n).
Definition steps (t : Z) (k : nat) : list (Z * Z * Z) := repeat (t, 4, 1) k.

(* no re-check of the bias after the CAS: the reader's slot is scanned before the reader has claimed it *)
Lemma no_recheck_refuted :
  overlap (run (mkShape true true 0 true false true) 1
            ([(1, 0, 0)] ++ [(1, 4, 0); (1, 4, 0)] ++ [(2, 2, 0)] ++ steps 2 4 ++ steps 1 2)) 2 1 = true.
Proof. vm_compute. reflexivity. Qed.

(* bias cleared only after the scan: a reader slips in between the scan and the clearing *)
Lemma clear_after_scan_refuted :
  overlap (run (mkShape true false 0 true true true) 1
            ([(2, 2, 0)] ++ steps 2 3 ++ [(1, 0, 0)] ++ [(1, 4, 0); (1, 4, 0); (1, 4, 0); (1, 4, 0)] ++ steps 2 1)) 2 1 = true.
Proof. vm_compute. reflexivity. Qed.

(* the scan skips slot 0 *)
Lemma scan_from_one_refuted :
  overlap (run (mkShape true true 1 true true true) 2
            ([(1, 0, 0)] ++ [(1, 4, 0); (1, 4, 0); (1, 4, 0); (1, 4, 0)] ++ [(2, 2, 0)] ++ steps 2 4)) 2 1 = true.
Proof. vm_compute. reflexivity. Qed.

(* the scan stops one slot early *)
Lemma scan_short_refuted :
  overlap (run (mkShape true true 0 false true true) 2
            ([(1, 0, 0)] ++ [(1, 4, 1); (1, 4, 0); (1, 4, 0); (1, 4, 0)] ++ [(2, 2, 0)] ++ steps 2 4)) 2 1 = true.
Proof. vm_compute. reflexivity. Qed.

(* rw not taken first: two writers *)
Lemma no_rw_refuted :
  overlap (run (mkShape false true 0 true true true) 1
            ([(1, 2, 0)] ++ steps 1 4 ++ [(2, 2, 0)] ++ steps 2 2)) 1 2 = true.
Proof. vm_compute. reflexivity. Qed.

(* the same schedules are harmless for the scraped shape *)
Lemma scraped_survives :
  forallb (fun ns => negb (overlap (run (shape_of c_rb_shape) (fst ns) (snd ns)) 2 1) && negb (overlap (run (shape_of c_rb_shape) (fst ns) (snd ns)) 1 2))
    [(1, [(1, 0, 0)] ++ [(1, 4, 0); (1, 4, 0)] ++ [(2, 2, 0)] ++ steps 2 4 ++ steps 1 2);
     (1, [(2, 2, 0)] ++ steps 2 3 ++ [(1, 0, 0)] ++ [(1, 4, 0); (1, 4, 0); (1, 4, 0); (1, 4, 0)] ++ steps 2 1);
     (2, [(1, 0, 0)] ++ [(1, 4, 0); (1, 4, 0); (1, 4, 0); (1, 4, 0)] ++ [(2, 2, 0)] ++ steps 2 4);
     (2, [(1, 0, 0)] ++ [(1, 4, 1); (1, 4, 0); (1, 4, 0); (1, 4, 0)] ++ [(2, 2, 0)] ++ steps 2 4);
     (1, [(1, 2, 0)] ++ steps 1 4 ++ [(2, 2, 0)] ++ steps 2 2)] = true.
Proof. vm_compute. reflexivity. Qed.

(* store.go, removeEntry: the listener's value is read only once the entry is out of its shard map (scraped) *)
Lemma remove_value_owned_as_written : c_remove_value_owned = true.
Proof. reflexivity. Qed.
