(* Proof/ShardP.v — C18: sharding by ANY hash function refines a flat map *)
From Coq Require Import ZArith List Bool Lia.
From Verif Require Import Base.Word64 Model.Shard.
Import ListNotations.
Open Scope Z_scope.

(* association lists *)
Lemma a_get_set_same m k v : a_get (a_set m k v) k = Some v.
Proof. unfold a_get, a_set. cbn [find fst]. rewrite Z.eqb_refl. reflexivity. Qed.
Lemma find_del_other (m : amap) k k' : k' <> k -> find (fun kv => fst kv =? k') (a_del m k) = find (fun kv => fst kv =? k') m.
Proof.
  intro N. unfold a_del. induction m as [|[a b] m IH]; [reflexivity|]. cbn [filter find fst].
  destruct (Z.eqb_spec a k) as [->|Na]; cbn [negb].
  - destruct (Z.eqb_spec k k'); [congruence|exact IH].
  - cbn [find fst]. destruct (a =? k'); [reflexivity|exact IH].
Qed.
Lemma a_get_del_other m k k' : k' <> k -> a_get (a_del m k) k' = a_get m k'.
Proof. intro N. unfold a_get. rewrite find_del_other by exact N. reflexivity. Qed.
Lemma a_get_del_same m k : a_get (a_del m k) k = None.
Proof.
  unfold a_get, a_del. induction m as [|[a b] m IH]; [reflexivity|]. cbn [filter fst].
  destruct (Z.eqb_spec a k) as [->|Na]; cbn [negb]; [exact IH|]. cbn [find fst]. destruct (Z.eqb_spec a k); [contradiction|exact IH].
Qed.
Lemma a_get_set_other m k v k' : k' <> k -> a_get (a_set m k v) k' = a_get m k'.
Proof.
  intro N. unfold a_set, a_get. cbn [find fst]. destruct (Z.eqb_spec k k'); [congruence|]. rewrite find_del_other by exact N. reflexivity.
Qed.

(* list update *)
Lemma upd_nth_length {A} (l : list A) i x : length (upd_nth l i x) = length l.
Proof. revert i. induction l as [|a l IH]; intros [|i]; cbn; auto. Qed.
Lemma nth_upd_same {A} (l : list A) i x d : (i < length l)%nat -> nth i (upd_nth l i x) d = x.
Proof. revert i. induction l as [|a l IH]; intros [|i] H; cbn in *; try lia; [reflexivity|apply IH; lia]. Qed.
Lemma nth_upd_other {A} (l : list A) i j x d : i <> j -> nth j (upd_nth l i x) d = nth j l d.
Proof. revert i j. induction l as [|a l IH]; intros [|i] [|j] H; cbn; try reflexivity; try congruence. apply IH. congruence. Qed.

Definition WF (s : shards) : Prop := 0 <= sh_bits s /\ length (sh_list s) = Z.to_nat (2 ^ sh_bits s).

Lemma index_bound s h : WF s -> (sh_index s h < length (sh_list s))%nat.
Proof.
  intros (Hb & Hl). unfold sh_index, sh_count. rewrite Hl.
  replace (2 ^ sh_bits s - 1) with (Z.ones (sh_bits s)) by (rewrite Z.ones_equiv; lia).
  rewrite Z.land_ones by exact Hb. pose proof (Z.pow_pos_nonneg 2 (sh_bits s) ltac:(lia) Hb).
  pose proof (Z.mod_pos_bound (w64 h) (2 ^ sh_bits s) ltac:(lia)). lia.
Qed.

Lemma WF_new b : 0 <= b -> WF (sh_new b).
Proof. intro H. split; [exact H|]. unfold sh_new. cbn [sh_list sh_bits]. apply repeat_length. Qed.
Lemma WF_set s k v h : WF s -> WF (sh_set s k v h).
Proof. intros (a & b). split; [exact a|]. unfold sh_set. cbn [sh_list sh_bits]. rewrite upd_nth_length. exact b. Qed.
Lemma WF_del s k h : WF s -> WF (sh_del s k h).
Proof. intros (a & b). split; [exact a|]. unfold sh_del. cbn [sh_list sh_bits]. rewrite upd_nth_length. exact b. Qed.

Lemma index_stable_set s k v h h' : sh_index (sh_set s k v h) h' = sh_index s h'.
Proof. reflexivity. Qed.
Lemma index_stable_del s k h h' : sh_index (sh_del s k h) h' = sh_index s h'.
Proof. reflexivity. Qed.

Section AnyHash.
  Variable hf : Z -> Z.     (* the hash function: arbitrary, but a function of the key *)

  Definition Rf (s : shards) (L : amap) : Prop := WF s /\ forall k, sh_get s k (hf k) = a_get L k.

  Lemma Rf_new b : 0 <= b -> Rf (sh_new b) [].
  Proof.
    intro H. split; [apply WF_new, H|]. intro k. unfold sh_get, sh_nth, sh_new. cbn [sh_list].
    assert (E : forall n i, nth i (repeat (@nil (Z * Z)) n) [] = []) by (induction n; intros [|i]; cbn; auto). rewrite E. reflexivity.
  Qed.

  Lemma Rf_set s L k v : Rf s L -> Rf (sh_set s k v (hf k)) (a_set L k v).
  Proof.
    intros (W & H). split; [apply WF_set, W|]. intro k'. unfold sh_get. rewrite index_stable_set. unfold sh_nth, sh_set. cbn [sh_list].
    destruct (Nat.eq_dec (sh_index s (hf k)) (sh_index s (hf k'))) as [E|N].
    - rewrite <- E, nth_upd_same by (apply index_bound, W). destruct (Z.eq_dec k' k) as [->|Nk].
      + rewrite !a_get_set_same. reflexivity.
      + rewrite !a_get_set_other by exact Nk. rewrite <- (H k'). unfold sh_get, sh_nth. rewrite E. reflexivity.
    - rewrite nth_upd_other by exact N. destruct (Z.eq_dec k' k) as [->|Nk]; [congruence|].
      rewrite a_get_set_other by exact Nk. apply H.
  Qed.

  Lemma Rf_del s L k : Rf s L -> Rf (sh_del s k (hf k)) (a_del L k).
  Proof.
    intros (W & H). split; [apply WF_del, W|]. intro k'. unfold sh_get. rewrite index_stable_del. unfold sh_nth, sh_del. cbn [sh_list].
    destruct (Nat.eq_dec (sh_index s (hf k)) (sh_index s (hf k'))) as [E|N].
    - rewrite <- E, nth_upd_same by (apply index_bound, W). destruct (Z.eq_dec k' k) as [->|Nk].
      + rewrite !a_get_del_same. reflexivity.
      + rewrite !a_get_del_other by exact Nk. rewrite <- (H k'). unfold sh_get, sh_nth. rewrite E. reflexivity.
    - rewrite nth_upd_other by exact N. destruct (Z.eq_dec k' k) as [->|Nk]; [congruence|].
      rewrite a_get_del_other by exact Nk. apply H.
  Qed.

  (* histories: every operation presents hf of its key *)
  Inductive kop := KGet (k : Z) | KSet (k v : Z) | KDel (k : Z).
  Definition kenc (o : kop) : list Z :=
    match o with KGet k => [0; k; hf k] | KSet k v => [1; k; v; hf k] | KDel k => [2; k; hf k] end.
  Definition flat_step (L : amap) (o : kop) : amap :=
    match o with KGet _ => L | KSet k v => a_set L k v | KDel k => a_del L k end.

  Lemma step_Rf s L o : Rf s L -> Rf (fst (shd_step s (kenc o))) (flat_step L o).
  Proof. intro H. destruct o; cbn [kenc shd_step fst flat_step]; [exact H|apply Rf_set, H|apply Rf_del, H]. Qed.

  Fixpoint krun (s : shards) (L : amap) (ops : list kop) : shards * amap :=
    match ops with [] => (s, L) | o :: r => krun (fst (shd_step s (kenc o))) (flat_step L o) r end.

  Lemma run_Rf ops : forall s L, Rf s L -> Rf (fst (krun s L ops)) (snd (krun s L ops)).
  Proof. induction ops as [|o r IH]; intros s L H; cbn [krun]; [exact H|apply IH, step_Rf, H]. Qed.

  (* a Get anywhere in any history answers exactly what the flat map holds for that key *)
  Lemma get_refines ops b k : 0 <= b ->
    let st := krun (sh_new b) [] ops in
    sh_get (fst st) k (hf k) = a_get (snd st) k.
  Proof. intros H. cbv zeta. destruct (run_Rf ops (sh_new b) [] (Rf_new b H)) as (_ & G). apply G. Qed.
End AnyHash.

(* the flat map itself: equal keys address the same slot, different keys never see each other *)
Lemma flat_set_get L k v : a_get (a_set L k v) k = Some v.
Proof. apply a_get_set_same. Qed.
Lemma flat_set_other L k v k' : k' <> k -> a_get (a_set L k v) k' = a_get L k'.
Proof. apply a_get_set_other. Qed.

(* the shard of a key never moves: the index depends on the hash and the (fixed) shard count only *)
Lemma bits_fixed s op : sh_bits (fst (shd_step s op)) = sh_bits s.
Proof.
  unfold shd_step. repeat (match goal with |- context [match ?x with _ => _ end] => destruct x end); reflexivity.
Qed.

(* what the theorem needs from the runtime: if one key is presented with two hashes that select
   different shards, the entry is not found — the hasher must be a function of the key's == class *)
Lemma needs_function_hash b k v h1 h2 : 0 <= b -> sh_index (sh_new b) h1 <> sh_index (sh_new b) h2 ->
  sh_get (sh_set (sh_new b) k v h1) k h2 = None.
Proof.
  intros Hb N. unfold sh_get. rewrite index_stable_set. unfold sh_nth, sh_set. cbn [sh_list].
  rewrite nth_upd_other by exact N.
  pose proof (index_bound (sh_new b) h2 (WF_new b Hb)) as Hi. unfold sh_new in *. cbn [sh_list] in *.
  assert (E : forall n i, nth i (repeat (@nil (Z * Z)) n) [] = []) by (induction n; intros [|i]; cbn; auto). rewrite E. reflexivity.
Qed.

Lemma example_collide :
  let hf := fun _ : Z => 0 in            (* every key collides *)
  let st := krun hf (sh_new 3) [] [KSet 1 10; KSet 2 20; KSet 1 11; KDel 2; KSet 3 30] in
  sh_get (fst st) 1 (hf 1) = Some 11 /\ sh_get (fst st) 2 (hf 2) = None /\ sh_get (fst st) 3 (hf 3) = Some 30.
Proof. vm_compute. repeat split. Qed.
