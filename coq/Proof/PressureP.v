(* Proof/PressureP.v — eviction only under capacity pressure: while the policy's total does not exceed its
   capacity, evictEntries moves window overflow to probation at most and evicts nothing. *)
From Coq Require Import ZArith List Bool Lia Permutation.
From Verif Require Import Base.Word64 Model.Sketch Model.Policy Proof.PolicyL Proof.PolicyI Proof.PolicyT Proof.PolicyO.
Import ListNotations.
Open Scope Z_scope.

Lemma evict_under_capacity p rnd : Core p -> wsz p <= pcap p ->
  snd (evictEntries p rnd) = [] /\ fst (evictEntries p rnd) = fst (evictFromWindow p).
Proof.
  intros HC Hle. unfold evictEntries. destruct (evictw_spec p HC) as (HC1 & US & _).
  destruct (evictFromWindow p) as [p1 first] eqn:E. cbn [fst snd] in *.
  destruct US as (u1 & u2 & _).
  replace (2 * total_count p1 + 6)%nat with (S (2 * total_count p1 + 5))%nat by lia.
  cbn [evictm_loop]. destruct (Z.ltb_spec (pcap p1) (wsz p1)); [lia|]. split; reflexivity.
Qed.

(* the entries the policy tracks are the same before and after (only their region may change) *)
Lemma evict_under_capacity_keeps p rnd : Core p -> wsz p <= pcap p ->
  Permutation (ids_of (all_items p)) (ids_of (all_items (fst (evictEntries p rnd)))).
Proof.
  intros HC Hle. destruct (evict_spec p rnd HC) as (_ & _ & _ & _ & _ & _ & _ & P).
  destruct (evict_under_capacity p rnd HC Hle) as (E & _). rewrite E in P. exact P.
Qed.

(* a new entry that fits evicts nothing *)
Lemma pset_no_pressure p e a0 rnd : PInv p -> region p (pid e) = 0 -> 1 <= pw e <= pcap p -> - two63 < a0 < two63 ->
  wsz p + pw e <= pcap p -> snd (pset p e a0 rnd) = [].
Proof.
  intros (HC & Hle) Hr Hp Ha Hfit. unfold pset.
  destruct (maybe_climb_spec p a0 HC Ha) as (HC1 & (k1 & k2 & k3 & k4)).
  pose proof (maybe_climb_perm p a0 HC Ha) as S1. set (p1 := maybe_climb p a0) in *.
  assert (Hn1 : ~ In (pid e) (ids_of (all_items p1))).
  { rewrite (same_items_ids p p1 _ S1). apply region_zero, Hr. }
  assert (R1 : region (with_wsz p1 (w64 (wsz p1 + w64 (pw e)))) (pid e) = 0) by (apply region_zero; exact Hn1).
  rewrite R1. cbn [Z.eqb].
  destruct (core_insert p1 e (hitsS (with_wsz p1 (w64 (wsz p1 + w64 (pw e))))) (w64 (missS (with_wsz p1 (w64 (wsz p1 + w64 (pw e)))) + 1)) HC1 ltac:(lia) Hn1 ltac:(lia))
    as (HC3 & Ea3 & (c31 & c32) & _).
  set (p3 := with_win _ _) in *.
  destruct (demote_spec p3 HC3) as (HC4 & US4 & _). set (p4 := demoteFromProtected p3) in *.
  destruct US4 as (u1 & u2 & _).
  assert (W3 : wsz p3 = wsz p1 + pw e).
  { unfold p3. cbn [with_win with_sample with_wsz wsz]. pose proof (len_bounds p1 HC1) as (a & b & c & d).
    pose proof HC1 as (Hnd & Lw & Lb & Lt & Hs & Hpw & Hc & C1 & C2 & C3 & Ht & He). apply w64_plus; bigs; lia. }
  assert (Fit4 : wsz p4 <= pcap p4) by lia.
  destruct (evict_under_capacity p4 rnd HC4 Fit4) as (E & _).
  destruct (evictEntries p4 rnd) as [p5 out]. cbn [snd] in E. subst out.
  destruct (wsz p5 <=? pcap p5); reflexivity.
Qed.
