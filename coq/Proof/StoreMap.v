(* Proof/StoreMap.v — C01: the store model refines a last-write map. *)
From Coq Require Import ZArith List Bool Lia.
From Coq Require Import ZifyBool.
From Verif Require Import Base.Word64 Model.Sketch Model.Expiry Model.Wheel Model.Policy Model.Store.
Import ListNotations.
Open Scope Z_scope.

(* ---------- association-list facts ---------- *)
Lemma map_get_set_same m k v : map_get (map_set m k v) k = Some v.
Proof. unfold map_get, map_set. cbn [find fst]. rewrite Z.eqb_refl. reflexivity. Qed.

Lemma find_filter_neq (m : list (Z * Z)) k k' : k' <> k ->
  find (fun kv => fst kv =? k') (filter (fun kv => negb (fst kv =? k)) m) = find (fun kv => fst kv =? k') m.
Proof.
  intro Hne. induction m as [|[a b] m IH]; [reflexivity|]. cbn [filter find fst].
  destruct (Z.eqb_spec a k) as [->|Na]; cbn [negb].
  - destruct (Z.eqb_spec k k'); [congruence|]. exact IH.
  - cbn [find fst]. destruct (Z.eqb_spec a k'); [reflexivity|exact IH].
Qed.

Lemma map_get_del_other m k k' : k' <> k -> map_get (map_del m k) k' = map_get m k'.
Proof. intro H. unfold map_get, map_del. rewrite find_filter_neq by exact H. reflexivity. Qed.

Lemma map_get_del_same m k : map_get (map_del m k) k = None.
Proof.
  unfold map_get, map_del. induction m as [|[a b] m IH]; [reflexivity|]. cbn [filter fst].
  destruct (Z.eqb_spec a k) as [->|Na]; cbn [negb]; [exact IH|].
  cbn [find fst]. destruct (Z.eqb_spec a k); [congruence|exact IH].
Qed.

Lemma map_get_set_other m k v k' : k' <> k -> map_get (map_set m k v) k' = map_get m k'.
Proof.
  intro H. unfold map_set. unfold map_get at 1. cbn [find fst].
  destruct (Z.eqb_spec k k'); [congruence|]. fold (map_get (map_del m k) k'). apply map_get_del_other, H.
Qed.

Lemma map_get_del_sub m k k' id : map_get (map_del m k) k' = Some id -> map_get m k' = Some id.
Proof.
  destruct (Z.eq_dec k' k) as [->|Hne]; [rewrite map_get_del_same; discriminate|].
  rewrite map_get_del_other by exact Hne. auto.
Qed.

(* ---------- entries ---------- *)
Definition same_kv (f : sentry -> sentry) : Prop :=
  forall e, sid (f e) = sid e /\ skey (f e) = skey e /\ sval (f e) = sval e /\
            sexpire (f e) = sexpire e /\ sweight (f e) = sweight e.

Lemma get_ent_upd s id f id' :
  (forall e, sid (f e) = sid e) ->
  get_ent (upd_ent s id f) id' =
  match get_ent s id' with Some e => Some (if sid e =? id then f e else e) | None => None end.
Proof.
  intro Hf. unfold get_ent, upd_ent. cbn [ents set_ents].
  induction (ents s) as [|a l IH]; [reflexivity|]. cbn [map find].
  destruct (Z.eqb_spec (sid a) id) as [E|N].
  - rewrite Hf. destruct (Z.eqb_spec (sid a) id'); [rewrite E, Z.eqb_refl; reflexivity|exact IH].
  - destruct (Z.eqb_spec (sid a) id'); [|exact IH]. destruct (Z.eqb_spec (sid a) id); [congruence|reflexivity].
Qed.

(* maintenance only relabels flags / weights of entries and shrinks the map *)
Definition ext (s s' : store) : Prop :=
  nextid s' = nextid s /\ sclosed s' = sclosed s /\
  (forall id e, get_ent s id = Some e ->
     exists e', get_ent s' id = Some e' /\ sid e' = sid e /\ skey e' = skey e /\ sval e' = sval e) /\
  (forall k id, map_get (smap s') k = Some id -> map_get (smap s) k = Some id) /\
  (forall e', In e' (ents s') -> exists e, In e (ents s) /\ sid e = sid e' /\ sexpire e = sexpire e' /\ sweight e = sweight e') /\
  (NoDup (map fst (smap s)) -> NoDup (map fst (smap s'))) /\
  scap s' = scap s /\ sec s' = sec s /\ hyb s' = hyb s.

Lemma NoDup_keys_del (m : list (Z * Z)) k : NoDup (map fst m) -> NoDup (map fst (map_del m k)).
Proof.
  unfold map_del. induction m as [|[a b] m IH]; intro H; [constructor|]. cbn [map fst] in H.
  inversion H as [|? ? Hn Hd]; subst. cbn [filter fst]. destruct (negb (a =? k)); [|apply IH, Hd].
  cbn [map fst]. constructor; [|apply IH, Hd].
  intro Hin. apply Hn. apply in_map_iff in Hin. destruct Hin as (x & Hx & Hf). apply filter_In in Hf.
  apply in_map_iff. exists x. split; [exact Hx|apply Hf].
Qed.

Lemma in_map_get (m : list (Z * Z)) k id : NoDup (map fst m) -> In (k, id) m -> map_get m k = Some id.
Proof.
  unfold map_get. induction m as [|[a b] m IH]; intros Hn Hi; [destruct Hi|]. cbn [map fst] in Hn.
  inversion Hn as [|? ? Hna Hd]; subst. cbn [find fst]. destruct Hi as [Hi|Hi].
  - inversion Hi. subst. rewrite Z.eqb_refl. reflexivity.
  - destruct (Z.eqb_spec a k) as [->|Ne]; [|apply IH; assumption].
    exfalso. apply Hna. apply in_map_iff. exists (k, id). auto.
Qed.

Lemma NoDup_keys_set (m : list (Z * Z)) k v : NoDup (map fst m) -> NoDup (map fst (map_set m k v)).
Proof.
  intro H. unfold map_set. cbn [map fst]. constructor; [|apply NoDup_keys_del, H].
  intro Hin. apply in_map_iff in Hin. destruct Hin as (x & Hx & Hf). unfold map_del in Hf.
  apply filter_In in Hf. destruct Hf as [_ Hf]. rewrite Hx, Z.eqb_refl in Hf. discriminate.
Qed.

Lemma ext_refl s : ext s s.
Proof. repeat split; auto. - intros id e H. exists e. auto. - intros e' H. exists e'. auto. Qed.

Lemma ext_trans a b c : ext a b -> ext b c -> ext a c.
Proof.
  intros (N1 & C1 & E1 & M1 & I1 & D1 & P1 & Q1 & Y1) (N2 & C2 & E2 & M2 & I2 & D2 & P2 & Q2 & Y2). split; [congruence|]. split; [congruence|]. split; [|split; [|split; [|split; [auto|split; [congruence|split; congruence]]]]].
  - intros id e H. destruct (E1 id e H) as (e1 & G1 & A1 & B1 & V1).
    destruct (E2 id e1 G1) as (e2 & G2 & A2 & B2 & V2). exists e2. repeat split; congruence.
  - intros k id H. apply M1, M2, H.
  - intros e' H. destruct (I2 e' H) as (e1 & H1 & S1 & X1 & W1). destruct (I1 e1 H1) as (e0 & H0 & S0 & X0 & W0).
    exists e0. split; [exact H0|]. repeat split; congruence.
Qed.

Lemma ext_upd s id f : same_kv f -> ext s (upd_ent s id f).
Proof.
  intro Hf. split; [reflexivity|]. split; [reflexivity|]. split; [|split; [|split; [|split; [auto|split; [reflexivity|split; reflexivity]]]]].
  - intros id' e H. rewrite get_ent_upd by (intro; apply Hf). rewrite H.
    destruct (sid e =? id); eexists; split; try reflexivity; try (repeat split; reflexivity).
    destruct (Hf e) as (A & B & C & _). auto.
  - auto.
  - intros e' H. unfold upd_ent in H. cbn [ents set_ents] in H. apply in_map_iff in H.
    destruct H as (e & <- & He). exists e. split; [exact He|].
    destruct (sid e =? id); [destruct (Hf e) as (A & _ & _ & B & C); repeat split; congruence|repeat split; reflexivity].
Qed.

Ltac ext_field := split; [reflexivity|]; split; [reflexivity|]; split; [intros id0 e0 H0; exists e0; auto|split; [auto|split; [intros e0 H0; exists e0; auto|split; [auto|split; [reflexivity|split; reflexivity]]]]].
Lemma ext_pol s x : ext s (set_pol s x). Proof. ext_field. Qed.
Lemma ext_whl s x : ext s (set_whl s x). Proof. ext_field. Qed.
Lemma ext_rbuf s x : ext s (set_rbuf s x). Proof. ext_field. Qed.
Lemma ext_nowc s x : ext s (set_nowc s x). Proof. ext_field. Qed.
Lemma ext_counts s h m : ext s (set_counts s h m). Proof. ext_field. Qed.
Lemma ext_queue s x : ext s (set_queue s x). Proof. ext_field. Qed.
Lemma ext_hand s x : ext s (set_hand s x). Proof. ext_field. Qed.
Lemma ext_secerrs s x : ext s (set_secerrs s x). Proof. ext_field. Qed.
Lemma ext_mapdel s k : ext s (set_smap s (map_del (smap s) k)).
Proof.
  split; [reflexivity|]. split; [reflexivity|]. split; [intros id0 e0 H0; exists e0; auto|split; [|split; [intros e0 H0; exists e0; auto|split; [|split; [reflexivity|split; reflexivity]]]]].
  - intros k' id H. cbn [smap set_smap] in H. eapply map_get_del_sub, H.
  - cbn [smap set_smap]. apply NoDup_keys_del.
Qed.

Lemma same_kv_removed b : same_kv (fun e => e_removed e b). Proof. intro e. repeat split. Qed.
Lemma same_kv_deleted b : same_kv (fun e => e_deleted e b). Proof. intro e. repeat split. Qed.
Lemma same_kv_nvm b : same_kv (fun e => e_nvm e b). Proof. intro e. repeat split. Qed.
Lemma same_kv_pw w : same_kv (fun e => e_pw e w). Proof. intro e. repeat split. Qed.

Ltac ext_step := first [ apply ext_refl | apply ext_pol | apply ext_whl | apply ext_rbuf | apply ext_nowc
                       | apply ext_counts | apply ext_queue | apply ext_hand | apply ext_secerrs | apply ext_mapdel
                       | apply ext_upd; first [apply same_kv_removed | apply same_kv_deleted | apply same_kv_nvm | apply same_kv_pw] ].

Lemma removeEntry_ext s id reason now : ext s (fst (removeEntry s id reason now)).
Proof.
  unfold removeEntry. destruct (get_ent s id) as [e|]; [|apply ext_refl].
  destruct ((reason =? reasonEXPIRED) && (sexpire e =? 0)); cbn [fst]; [apply ext_refl|].
  destruct ((reason =? reasonEXPIRED) && (now <? sexpire e)); cbn [fst]; [ext_step|].
  set (s1 := upd_ent s id (fun e0 => e_removed e0 true)).
  assert (E1 : ext s s1) by (unfold s1; ext_step).
  set (s2 := if tracked s1 id then set_pol s1 (premove_id (pol s1) id) else s1).
  assert (E2 : ext s s2) by (unfold s2; destruct (tracked s1 id); [eapply ext_trans; [exact E1|ext_step]|exact E1]).
  set (s3 := if scheduled (whl s2) id then set_whl s2 (deschedule (whl s2) id) else s2).
  assert (E3 : ext s s3) by (unfold s3; destruct (scheduled (whl s2) id); [eapply ext_trans; [exact E2|ext_step]|exact E2]).
  destruct (reason =? reasonREMOVED); cbn [fst].
  - eapply ext_trans; [exact E3|ext_step].
  - destruct ((reason =? reasonEVICTED) && hyb s3 && negb (f_nvm e && negb (f_dirty e)) && (Z.of_nat (length (hand s3)) <? 256)); cbn [fst];
      [eapply ext_trans; [exact E3|ext_step]|].
    destruct (map_get (smap s3) (skey e)) as [id'|]; [|exact E3].
    destruct (id' =? id); cbn [fst]; [eapply ext_trans; [exact E3|ext_step]|exact E3].
Qed.

Lemma remove_all_ext ids : forall s reason now out, ext s (fst (remove_all s ids reason now out)).
Proof.
  induction ids as [|id r IH]; intros s reason now out; cbn [remove_all]; [apply ext_refl|].
  pose proof (removeEntry_ext s id reason now) as E. destruct (removeEntry s id reason now) as [s' o].
  eapply ext_trans; [exact E|apply IH].
Qed.

Lemma sinkWrite_ext s it now a0 rnd : ext s (fst (sinkWrite s it now a0 rnd)).
Proof.
  unfold sinkWrite. destruct (get_ent s (wsid it)) as [e|]; [|apply ext_refl].
  destruct (f_deleted e); [apply ext_refl|].
  set (s1 := if wcode it =? cREMOVE then upd_ent s (wsid it) (fun e0 => e_deleted e0 true) else s).
  assert (E1 : ext s s1) by (unfold s1; destruct (_ =? _); ext_step).
  set (s2 := if wnvm it then upd_ent s1 (wsid it) (fun e0 => e_nvm e0 true) else s1).
  assert (E2 : ext s s2) by (unfold s2; destruct (wnvm it); [eapply ext_trans; [exact E1|ext_step]|exact E1]).
  destruct (f_removed e && negb (wcode it =? cNEW) && negb (wcode it =? cREMOVE)); [exact E2|].
  destruct (wcode it =? cNEW).
  { set (s3 := upd_ent s2 (wsid it) (fun e0 => e_removed e0 false)).
    assert (E3 : ext s s3) by (eapply ext_trans; [exact E2|unfold s3; ext_step]).
    destruct (negb (sexpire e =? 0) && (sexpire e <=? now)).
    - eapply ext_trans; [exact E3|apply removeEntry_ext].
    - set (s4 := if negb (sexpire e =? 0) then set_whl s3 (schedule (whl s3) (wsid it) (sexpire e)) else s3).
      assert (E4 : ext s s4) by (unfold s4; destruct (negb _); [eapply ext_trans; [exact E3|ext_step]|exact E3]).
      set (s5 := set_pol s4 (with_sk (pol s4) (fst (add (psk (pol s4)) (whash it))))).
      assert (E5 : ext s s5) by (eapply ext_trans; [exact E4|unfold s5; ext_step]).
      set (s6 := upd_ent s5 (wsid it) (fun e0 => e_pw e0 (s64 (spw e + wcost it)))).
      assert (E6 : ext s s6) by (eapply ext_trans; [exact E5|unfold s6; ext_step]).
      destruct (pset (pol s6) _ a0 rnd) as [p' ev].
      eapply ext_trans; [exact E6|]. eapply ext_trans; [apply ext_pol|apply remove_all_ext]. }
  destruct (wcode it =? cREMOVE); [eapply ext_trans; [exact E2|apply removeEntry_ext]|].
  destruct (wcode it =? cUPDATE); [|exact E2].
  destruct (wresched it && negb (sexpire e =? 0) && (sexpire e <=? now)); [eapply ext_trans; [exact E2|apply removeEntry_ext]|].
  set (s2' := if wresched it && (sexpire e =? 0) && scheduled (whl s2) (wsid it)
              then set_whl s2 (deschedule (whl s2) (wsid it)) else s2).
  assert (E2' : ext s s2') by (unfold s2'; destruct (wresched it && (sexpire e =? 0) && scheduled (whl s2) (wsid it)); [eapply ext_trans; [exact E2|ext_step]|exact E2]).
  set (s2n := upd_ent s2' (wsid it) (fun e0 => e_nvm e0 false)).
  assert (E2n : ext s s2n) by (eapply ext_trans; [exact E2'|unfold s2n; ext_step]).
  set (s3 := upd_ent s2n (wsid it) (fun e0 => e_pw e0 (s64 (spw e + wcost it)))).
  assert (E3 : ext s s3) by (eapply ext_trans; [exact E2n|unfold s3; ext_step]).
  set (s4 := if wresched it && negb (sexpire e =? 0) then set_whl s3 (schedule (whl s3) (wsid it) (sexpire e)) else s3).
  assert (E4 : ext s s4) by (unfold s4; destruct (wresched it && negb (sexpire e =? 0)); [eapply ext_trans; [exact E3|ext_step]|exact E3]).
  destruct (negb (tracked s4 (wsid it))); [exact E4|].
  destruct (wcost it =? 0); [exact E4|].
  destruct (pupdate (pol s4) (wsid it) (wcost it) rnd) as [p' ev].
  eapply ext_trans; [exact E4|]. eapply ext_trans; [apply ext_pol|apply remove_all_ext].
Qed.

(* generic: the wheel's advance loops preserve any predicate the visitor preserves *)
Section LoopPres.
  Variables (St : Type) (getw : St -> wheel) (visit : St -> went -> St) (P : St -> Prop).
  Hypothesis Hv : forall st e, P st -> P (visit st e).
  Lemma fold_pres l : forall st, P st -> P (fold_left visit l st).
  Proof. induction l as [|a l IH]; intros st H; cbn [fold_left]; auto. Qed.
  Lemma slots_pres n : forall st i k, P st -> P (slots_loop St getw visit n st i k).
  Proof. induction n as [|n IH]; intros st i k H; cbn [slots_loop]; [exact H|]. apply IH. unfold process_slot. apply fold_pres, H. Qed.
  Lemma levels_pres lv : forall st prev now, P st -> P (levels_loop St getw visit lv st prev now).
  Proof.
    induction lv as [|i r IH]; intros st prev now H; cbn [levels_loop]; [exact H|].
    destruct (_ <=? _); [exact H|]. apply IH. unfold expire_level. apply slots_pres, H.
  Qed.
End LoopPres.

Lemma svisit_ext s0 now st we : ext s0 (fst st) -> ext s0 (fst (svisit now st we)).
Proof.
  intro H. unfold svisit. destruct st as [s out]. cbn [fst] in *.
  destruct (get_ent s (eid we)) as [e|]; [|exact H].
  destruct (sexpire e <=? wnanos (whl s)).
  - pose proof (removeEntry_ext (set_whl s (deschedule (whl s) (eid we))) (eid we) reasonEXPIRED now) as E.
    destruct (removeEntry _ _ _ _) as [s2 o]. cbn [fst] in *.
    eapply ext_trans; [exact H|]. eapply ext_trans; [apply ext_whl|exact E].
  - cbn [fst]. eapply ext_trans; [exact H|apply ext_whl].
Qed.

Lemma tick_ext s now : ext s (fst (tick s now)).
Proof.
  unfold tick.
  apply (levels_pres (store * list Z) (fun st => whl (fst st)) (svisit now) (fun st => ext s (fst st))).
  - intros st e H. apply svisit_ext, H.
  - cbn [fst]. eapply ext_trans; [apply ext_nowc|apply ext_whl].
Qed.

Lemma drain_loop_ext items : forall s a0, ext s (drain_loop items s a0).
Proof.
  induction items as [|[id h] r IH]; intros s a0; cbn [drain_loop]; [apply ext_refl|].
  destruct (get_ent s id) as [e|]; [|apply IH]. destruct (f_removed e); [apply IH|].
  eapply ext_trans; [apply ext_pol|apply IH].
Qed.

Lemma record_hit_ext s id h a0 : ext s (record_hit s id h a0).
Proof.
  unfold record_hit. destruct (_ =? 16); [|apply ext_rbuf].
  eapply ext_trans; [apply ext_rbuf|apply drain_loop_ext].
Qed.

(* ---------- the refinement invariant ---------- *)
Definition Spec := list (Z * Z).

Definition Rinv (s : store) (L : Spec) : Prop :=
  (forall k id, map_get (smap s) k = Some id ->
     exists e, get_ent s id = Some e /\ sid e = id /\ skey e = k /\ map_get L k = Some (sval e)) /\
  (forall e, In e (ents s) -> sid e < nextid s) /\
  NoDup (map fst (smap s)).

Lemma Rinv_ext s s' L : Rinv s L -> ext s s' -> Rinv s' L.
Proof.
  intros (R & F & D) (N & C & E & M & I & DD & _ & _ & _). split; [|split; [|auto]].
  - intros k id H. destruct (R k id (M k id H)) as (e & G & Si & K & V).
    destruct (E id e G) as (e' & G' & S' & K' & V'). exists e'. repeat split; congruence.
  - intros e' H. destruct (I e' H) as (e & He & Se & _). rewrite N, <- Se. apply F, He.
Qed.

Lemma get_ent_sid s id e : get_ent s id = Some e -> sid e = id.
Proof. unfold get_ent. intro H. apply find_some in H. lia. Qed.

Lemma get_ent_in s id e : get_ent s id = Some e -> In e (ents s).
Proof. unfold get_ent. intro H. apply find_some in H. apply H. Qed.

(* the secondary-copy invalidation and the event send touch neither entries nor the map *)
Lemma smap_si x k n it : smap (send (invalidate x k n) it) = smap x.
Proof. unfold invalidate. destruct (_ && _); reflexivity. Qed.
Lemma ents_si x k n it : ents (send (invalidate x k n) it) = ents x.
Proof. unfold invalidate. destruct (_ && _); reflexivity. Qed.
Lemma get_ent_si x k n it id : get_ent (send (invalidate x k n) it) id = get_ent x id.
Proof. unfold get_ent. rewrite ents_si. reflexivity. Qed.
Lemma nextid_si x k n it : nextid (send (invalidate x k n) it) = nextid x.
Proof. unfold invalidate. destruct (_ && _); reflexivity. Qed.
Lemma scap_si x k n it : scap (send (invalidate x k n) it) = scap x.
Proof. unfold invalidate. destruct (_ && _); reflexivity. Qed.
Lemma nowc_si x k n it : nowc (send (invalidate x k n) it) = nowc x.
Proof. unfold invalidate. destruct (_ && _); reflexivity. Qed.
Lemma hits_si x k n it : hits (send (invalidate x k n) it) = hits x.
Proof. unfold invalidate. destruct (_ && _); reflexivity. Qed.
Lemma misses_si x k n it : misses (send (invalidate x k n) it) = misses x.
Proof. unfold invalidate. destruct (_ && _); reflexivity. Qed.
Lemma queue_si x k n it : queue (send (invalidate x k n) it) = queue x ++ [it].
Proof. unfold invalidate. destruct (_ && _); reflexivity. Qed.
Lemma sclosed_si x k n it : sclosed (send (invalidate x k n) it) = sclosed x.
Proof. unfold invalidate. destruct (_ && _); reflexivity. Qed.

(* the write section *)
Lemma set_section_Rinv s L k v cost expire now h dk nvm :
  Rinv s L ->
  let '(s', ok, stored) := set_section s k v cost expire now h dk nvm in
  Rinv s' (if stored then map_set L k v else L).
Proof.
  intros (R & F & D). unfold set_section.
  destruct (sclosed s); [exact (conj R (conj F D))|].
  destruct (map_get (smap s) k) as [id|] eqn:Em.
  - destruct (R k id Em) as (e & G & Si & K & V). rewrite G.
    destruct (updateExpire (sexpire e) expire now) as [ex rs].
    set (f := fun e0 => e_dirty (e_weight (e_val (e_expire e0 ex) v) cost) (f_dirty e0 || negb nvm)).
    assert (Hf : forall e0, sid (f e0) = sid e0) by (intro; reflexivity).
    cbv beta iota. split; [|split; [|rewrite smap_si; exact D]].
    + intros k' id' H. rewrite smap_si in H. change (smap (upd_ent s id f)) with (smap s) in H.
      destruct (R k' id' H) as (e' & G' & Si' & K' & V').
      rewrite get_ent_si.
      rewrite get_ent_upd by exact Hf. rewrite G'.
      destruct (Z.eqb_spec (sid e') id) as [Eq|Ne].
      * exists (f e'). split; [reflexivity|]. assert (e' = e) by congruence. subst e'.
        assert (Ek : k' = k) by congruence. rewrite Ek in *. repeat split; auto. rewrite map_get_set_same. reflexivity.
      * exists e'. split; [reflexivity|]. repeat split; auto.
        assert (k' <> k).
        { intro Ek. rewrite Ek in H. rewrite Em in H. inversion H. congruence. }
        rewrite map_get_set_other by auto. exact V'.
    + intros e' H. rewrite ents_si in H. unfold upd_ent in H. cbn [ents set_ents] in H.
      apply in_map_iff in H. destruct H as (e0 & <- & H0).
      rewrite nextid_si. change (nextid (upd_ent s id f)) with (nextid s). destruct (sid e0 =? id); [rewrite Hf|]; apply F, H0.
  - destruct dk; cbn [negb]; cbv beta iota; [|exact (conj R (conj F D))].
    split; [|split; [|rewrite smap_si; cbn [smap set_nextid set_smap]; apply NoDup_keys_set, D]].
    + intros k' id' H. rewrite smap_si in H. cbn [smap set_nextid set_smap] in H.
      rewrite get_ent_si.
      change (get_ent (set_nextid (set_smap (set_ents s (mkE (nextid s) k v cost expire 0 h false false false false :: ents s))
                                            (map_set (smap s) k (nextid s))) (nextid s + 1)) id') with
        (find (fun e => sid e =? id') (mkE (nextid s) k v cost expire 0 h false false false false :: ents s)).
      destruct (Z.eq_dec k' k) as [->|Hne].
      * rewrite map_get_set_same in H. inversion H. subst id'. cbn [find sid]. rewrite Z.eqb_refl.
        eexists. split; [reflexivity|]. cbn. repeat split; auto. rewrite map_get_set_same. reflexivity.
      * rewrite map_get_set_other in H by auto. destruct (R k' id' H) as (e' & G' & Si' & K' & V').
        cbn [find sid]. destruct (Z.eqb_spec (nextid s) id') as [Eq|Ne].
        -- exfalso. pose proof (F e' (get_ent_in s id' e' G')). lia.
        -- exists e'. split; [exact G'|]. repeat split; auto. rewrite map_get_set_other by auto. exact V'.
    + intros e' H. rewrite ents_si in H. rewrite nextid_si. cbn [ents set_nextid set_smap set_ents nextid] in *.
      destruct H as [<-|H]; [cbn; lia|]. pose proof (F e' H). lia.
Qed.

(* ---------- specification step: which writes take effect ---------- *)
Definition spec_step (s : store) (L : Spec) (op : list Z) : Spec :=
  match op with
  | [1; k; v; cost; ttl; now; h; dk] =>
      let '(_, _, stored) := sset3 s k v cost ttl now h (negb (dk =? 0)) in
      if stored then map_set L k v else L
  | [2; k; h] => if sclosed s then L else map_del L k
  | [8; k; now; a0; h; err; v; cost; ttl; dk] =>
      let '(_, _, stored) := sload3 s k now a0 h (negb (err =? 0)) v cost ttl (negb (dk =? 0)) in
      if stored then map_set L k v else L
  | _ => L
  end.

(* well-formed operations of the integer-list interface *)
Inductive sop :=
| OGet (k now a0 : Z) | OSet (k v cost ttl now h dk : Z) | ODel (k h : Z)
| OSink (i now a0 rnd : Z) | OTick (now : Z) | ORange (now : Z) | OViews | ODump
| OLoad (k now a0 h err v cost ttl dk : Z) | OClose | ORefresh (now : Z) | OStale (k now : Z).

Definition enc (o : sop) : list Z :=
  match o with
  | OGet k now a0 => [0; k; now; a0]
  | OSet k v cost ttl now h dk => [1; k; v; cost; ttl; now; h; dk]
  | ODel k h => [2; k; h]
  | OSink i now a0 rnd => [3; i; now; a0; rnd]
  | OTick now => [4; now]
  | ORange now => [5; now]
  | OViews => [6]
  | ODump => [7]
  | OLoad k now a0 h err v cost ttl dk => [8; k; now; a0; h; err; v; cost; ttl; dk]
  | OClose => [9]
  | ORefresh now => [10; now]
  | OStale k now => [11; k; now]
  end.

Lemma step_Rinv s L o : Rinv s L -> Rinv (fst (st_step s (enc o))) (spec_step s L (enc o)).
Proof.
  intro H. destruct o; cbn [enc st_step spec_step fst]; try exact H.
  - (* Get *) unfold sget. destruct (lookup_live s _ _); cbn [fst].
    + eapply Rinv_ext; [exact H|]. eapply ext_trans; [apply ext_counts|apply record_hit_ext].
    + eapply Rinv_ext; [exact H|apply ext_counts].
  - (* Set *) unfold sset, sset3.
    destruct (_ <? _); cbn [fst]; [exact H|].
    match goal with |- context [set_section ?a ?b ?c ?d ?e ?n ?f ?g ?h] =>
      pose proof (set_section_Rinv a L b c d e n f g h H) as Q; destruct (set_section a b c d e n f g h) as [[s' ok] st] end.
    exact Q.
  - (* Delete *) unfold sdelete. destruct (sclosed s); [exact H|].
    destruct (map_get (smap s) k) as [id|] eqn:Em.
    + destruct H as (R & F & D). split; [|split; [exact F|cbn [send smap set_queue set_smap]; apply NoDup_keys_del, D]].
      intros k' id' Hm. cbn [send smap set_queue set_smap] in Hm.
      destruct (Z.eq_dec k' k) as [->|Hne]; [rewrite map_get_del_same in Hm; discriminate|].
      rewrite map_get_del_other in Hm by auto. destruct (R k' id' Hm) as (e & G & Si & K & V).
      exists e. split; [exact G|]. repeat split; auto. rewrite map_get_del_other by auto. exact V.
    + destruct H as (R & F & D). split; [|exact (conj F D)].
      intros k' id' Hm. destruct (R k' id' Hm) as (e & G & Si & K & V).
      exists e. split; [exact G|]. repeat split; auto.
      destruct (Z.eq_dec k' k) as [->|Hne]; [congruence|]. rewrite map_get_del_other by auto. exact V.
  - (* Sink *) unfold sink_nth. destruct (nth_error _ _); [|exact H].
    eapply Rinv_ext; [exact H|]. eapply ext_trans; [apply ext_queue|apply sinkWrite_ext].
  - (* Tick *) eapply Rinv_ext; [exact H|apply tick_ext].
  - (* loading Get *) unfold sload, sload3. destruct (lookup_live s _ _); cbn [fst].
    + eapply Rinv_ext; [exact H|]. eapply ext_trans; [apply ext_counts|apply record_hit_ext].
    + assert (H1 : Rinv (set_counts s (hits s) (misses s + 1)) L) by (eapply Rinv_ext; [exact H|apply ext_counts]).
      change (sclosed (set_counts s (hits s) (misses s + 1))) with (sclosed s).
      destruct (sclosed s); [exact H1|]. destruct (negb (_ =? 0)); [exact H1|].
      change (scap (set_counts s (hits s) (misses s + 1))) with (scap s).
      destruct (_ <? _); [exact H1|].
      match goal with |- context [set_section ?a ?b ?c ?d ?e ?n ?f ?g ?h] =>
        pose proof (set_section_Rinv a L b c d e n f g h H1) as Q; destruct (set_section a b c d e n f g h) as [[s' ok] st] end.
      exact Q.
  - (* Close *) destruct H as (R & F & D). split; [|split; [exact F|constructor]]. intros k id Hm. cbn in Hm. discriminate.
  - (* stale wheel visit *) destruct (map_get (smap s) _); [|cbn [fst]; exact H].
    eapply Rinv_ext; [exact H|]. eapply ext_trans; [apply ext_whl|apply removeEntry_ext].
Qed.

(* ---------- what reads return ---------- *)
Lemma lookup_live_spec s L k now e : Rinv s L -> lookup_live s k now = Some e ->
  map_get L k = Some (sval e) /\ skey e = k.
Proof.
  intros (R & _ & _) H. unfold lookup_live in H. destruct (sclosed s); [discriminate|].
  destruct (map_get (smap s) k) as [id|] eqn:Em; [|discriminate].
  destruct (R k id Em) as (e' & G & Si & K & V). rewrite G in H.
  destruct (served _ _ _); [|discriminate]. inversion H. subst e'. auto.
Qed.

Lemma get_reads_latest s L k now a0 v : Rinv s L ->
  snd (st_step s [0; k; now; a0]) = [1; v] -> map_get L k = Some v.
Proof.
  intros H. cbn [st_step]. unfold sget. destruct (lookup_live s k now) as [e|] eqn:El; cbn [snd]; [|discriminate].
  intro Hv. inversion Hv. subst v. eapply lookup_live_spec; eauto.
Qed.

Lemma load_hit_reads_latest s L k now a0 h err v0 cost ttl dk v : Rinv s L ->
  snd (st_step s [8; k; now; a0; h; err; v0; cost; ttl; dk]) = [1; v] -> map_get L k = Some v.
Proof.
  intros H. cbn [st_step]. unfold sload, sload3. destruct (lookup_live s k now) as [e|] eqn:El.
  - cbn [snd]. intro Hv. inversion Hv. subst v. eapply lookup_live_spec; eauto.
  - destruct (sclosed _); [cbn; discriminate|]. destruct (negb _); [cbn; discriminate|].
    destruct (_ <? _); [cbn; discriminate|].
    destruct (set_section _ _ _ _ _ _ _ _ _) as [[s' ok] st]. cbn. discriminate.
Qed.

Lemma in_sort_kv x l : In x (sort_kv l) -> In x l.
Proof.
  unfold sort_kv. induction l as [|a l IH]; cbn [fold_right]; [auto|].
  assert (G : forall y m, In x (insert_sorted y m) -> x = y \/ In x m).
  { intros y m. induction m as [|b m IHm]; cbn [insert_sorted]; [intros [->|[]]; auto|].
    destruct (_ <=? _); cbn [In]; intuition. }
  intro H. apply G in H. destruct H as [->|H]; [left; reflexivity|right; apply IH, H].
Qed.

Lemma range_reads_latest s L now k v : Rinv s L ->
  In (k, v) (sort_kv (flat_map (fun kv =>
                 match get_ent s (snd kv) with
                 | Some e => if rangeVisible (sexpire e) now then [(skey e, sval e)] else []
                 | None => [] end) (smap s))) ->
  map_get L k = Some v.
Proof.
  intros (R & _ & D) H. apply in_sort_kv in H. apply in_flat_map in H. destruct H as ([k0 id] & Hin & Hx).
  cbn [snd] in Hx. destruct (get_ent s id) as [e|] eqn:G; [|destruct Hx].
  destruct (rangeVisible _ _); [|destruct Hx]. destruct Hx as [Hx|[]]. inversion Hx. subst k v.
  pose proof (in_map_get _ _ _ D Hin) as Hm. destruct (R k0 id Hm) as (e' & G' & Si' & K' & V').
  assert (e' = e) by congruence. subst e'. rewrite K'. exact V'.
Qed.

(* ---------- histories ---------- *)
Fixpoint run2 (s : store) (L : Spec) (ops : list sop) : store * Spec :=
  match ops with
  | [] => (s, L)
  | o :: r => run2 (fst (st_step s (enc o))) (spec_step s L (enc o)) r
  end.

Lemma run2_Rinv ops : forall s L, Rinv s L -> Rinv (fst (run2 s L ops)) (snd (run2 s L ops)).
Proof.
  induction ops as [|o r IH]; intros s L H; cbn [run2]; [exact H|]. apply IH, step_Rinv, H.
Qed.

Lemma init_Rinv c wc pc now : Rinv (newStore c wc pc now) [].
Proof. split; [|split]. - intros k id H. discriminate. - intros e []. - constructor. Qed.

Lemma get_after_delete_misses s L k now a0 : Rinv s L -> map_get L k = None ->
  snd (st_step s (enc (OGet k now a0))) = [0; 0].
Proof.
  intros H Hn. cbn [enc st_step]. unfold sget. destruct (lookup_live s k now) as [e|] eqn:El; [|reflexivity].
  destruct (lookup_live_spec s L k now e H El) as [V _]. congruence.
Qed.

Lemma delete_makes_absent s L k h : sclosed s = false -> map_get (spec_step s L (enc (ODel k h))) k = None.
Proof. intro Hc. cbn [enc spec_step]. rewrite Hc. apply map_get_del_same. Qed.

(* only a write to k that takes effect, or a Delete of k, changes what the spec holds for k *)
Lemma spec_step_other s L o k :
  (forall k' v c t n h d, o <> OSet k' v c t n h d \/ k' <> k) ->
  (forall k' h, o <> ODel k' h \/ k' <> k) ->
  (forall k' n a h e v c t d, o <> OLoad k' n a h e v c t d \/ k' <> k) ->
  map_get (spec_step s L (enc o)) k = map_get L k.
Proof.
  intros H1 H2 H3. destruct o; cbn [enc spec_step]; try reflexivity.
  - destruct (sset3 _ _ _ _ _ _ _ _) as [[s' ok] st]. destruct st; [|reflexivity].
    destruct (H1 k0 v cost ttl now h dk) as [N|N]; [congruence|]. apply map_get_set_other. congruence.
  - destruct (sclosed s); [reflexivity|]. destruct (H2 k0 h) as [N|N]; [congruence|]. apply map_get_del_other. congruence.
  - destruct (sload3 _ _ _ _ _ _ _ _ _ _) as [[s' oo] st]. destruct st; [|reflexivity].
    destruct (H3 k0 now a0 h err v cost ttl dk) as [N|N]; [congruence|]. apply map_get_set_other. congruence.
Qed.

(* an eviction / expiry / secondary removal of an entry that is no longer the occupant
   of its key's slot changes nothing in the map (the identity check of Shard.delete) *)
Lemma stale_removal_harmless s id reason now e :
  get_ent s id = Some e -> map_get (smap s) (skey e) <> Some id ->
  smap (fst (removeEntry s id reason now)) = smap s.
Proof.
  intros G Hne. unfold removeEntry. rewrite G.
  destruct ((reason =? reasonEXPIRED) && (sexpire e =? 0)); [reflexivity|].
  destruct ((reason =? reasonEXPIRED) && (now <? sexpire e)); [reflexivity|].
  set (s1 := upd_ent s id (fun e0 => e_removed e0 true)).
  set (s2 := if tracked s1 id then set_pol s1 (premove_id (pol s1) id) else s1).
  set (s3 := if scheduled (whl s2) id then set_whl s2 (deschedule (whl s2) id) else s2).
  assert (E3 : smap s3 = smap s).
  { unfold s3, s2, s1. destruct (scheduled _ _), (tracked _ _); reflexivity. }
  destruct (reason =? reasonREMOVED); cbn [fst]; [exact E3|].
  destruct ((reason =? reasonEVICTED) && hyb s3 && negb (f_nvm e && negb (f_dirty e)) && (Z.of_nat (length (hand s3)) <? 256)); cbn [fst]; [exact E3|].
  rewrite E3. destruct (map_get (smap s) (skey e)) as [id'|] eqn:Em; [|exact E3].
  destruct (Z.eqb_spec id' id) as [->|N]; [congruence|exact E3].
Qed.
