(* Proof/PolicyT.v — loops of the eviction policy preserve the invariant and terminate (C07) *)
From Coq Require Import ZArith List Bool Lia Permutation.
From Coq Require Import ZifyBool.
From Verif Require Import Base.Word64 Model.Sketch Model.Policy Proof.ExpiryP Proof.PolicyL Proof.PolicyI.
Import ListNotations.
Open Scope Z_scope.

Lemma us_refl p : unchanged_scalars p p.
Proof. repeat split. Qed.
Lemma us_trans a b c : unchanged_scalars a b -> unchanged_scalars b c -> unchanged_scalars a c.
Proof. intros (a1&a2&a3&a4&a5&a6&a7&a8&a9&a10) (b1&b2&b3&b4&b5&b6&b7&b8&b9&b10). repeat split; congruence. Qed.

Lemma lback_some_nonempty l : litems l <> [] -> exists e, lback l = Some e.
Proof.
  intro H. destruct (lback l) as [e|] eqn:E; [exists e; reflexivity|]. apply lback_none in E. contradiction.
Qed.

Lemma llen_pos_nonempty p l : Core p -> LOK l -> 0 < llen l -> litems l <> [].
Proof. intros _ [L _] H E. rewrite E in L. cbn in L. lia. Qed.

Lemma s64_cap p : Core p -> s64 (lcap (win p)) = lcap (win p) /\ s64 (lcap (prot p)) = lcap (prot p) /\ s64 (pcap p) = pcap p.
Proof.
  intros (_ & _ & _ & _ & _ & _ & Hc & C1 & C2 & C3 & _). bigs.
  repeat split; apply s64_small; unfold two63; lia.
Qed.

(* ---------- demoteFromProtected ---------- *)
Lemma demote_loop_spec : forall n p, Core p -> (length (litems (prot p)) < n)%nat ->
  let p' := demote_loop n p in
  Core p' /\ unchanged_scalars p p' /\ litems (win p') = litems (win p) /\ llen (win p') = llen (win p) /\
  llen (prot p') <= lcap (prot p').
Proof.
  induction n as [|n IH]; intros p HC Hn; [lia|]. cbn [demote_loop].
  destruct (s64_cap p HC) as (_ & St & _). rewrite St.
  destruct (Z.ltb_spec (lcap (prot p)) (llen (prot p))) as [Lt|Ge].
  - assert (Hne : litems (prot p) <> []).
    { apply (llen_pos_nonempty p); [exact HC|apply HC|]. destruct HC as (_&_&_&_&_&_&_&_&C2&_). lia. }
    destruct (lback_some_nonempty _ Hne) as (e & Eb). rewrite Eb.
    pose proof (lback_in _ _ Eb) as Hi.
    destruct (move_TB p e HC Hi) as (HC' & US & Ew & Et & _ & _ & Lw).
    set (p1 := with_prob (with_prot p (lremove (prot p) e)) (pushFront (prob p) e)) in *.
    destruct (IH p1 HC') as (HC2 & US2 & Ew2 & Lw2 & Le).
    { rewrite Et. pose proof (nd_parts p HC) as (_ & _ & Nt & _). pose proof (without_length _ _ Nt Hi). lia. }
    cbv zeta. split; [exact HC2|]. split; [exact (us_trans _ _ _ US US2)|]. split; [congruence|]. split; [congruence|exact Le].
  - cbv zeta. split; [exact HC|]. split; [apply us_refl|]. repeat split; auto.
Qed.

Lemma demote_spec p : Core p ->
  let p' := demoteFromProtected p in
  Core p' /\ unchanged_scalars p p' /\ litems (win p') = litems (win p) /\ llen (win p') = llen (win p) /\
  llen (prot p') <= lcap (prot p').
Proof. intro HC. unfold demoteFromProtected. apply demote_loop_spec; [exact HC|lia]. Qed.

(* ---------- evictFromWindow ---------- *)
Lemma evictw_loop_spec : forall n p first, Core p -> (length (litems (win p)) < n)%nat ->
  (forall f, first = Some f -> In f (litems (prob p))) ->
  let r := evictw_loop n p first in
  Core (fst r) /\ unchanged_scalars p (fst r) /\ litems (prot (fst r)) = litems (prot p) /\
  llen (win (fst r)) <= lcap (win (fst r)) /\
  (forall f, snd r = Some f -> In f (litems (prob (fst r)))).
Proof.
  induction n as [|n IH]; intros p first HC Hn Hf; [lia|]. cbn [evictw_loop].
  destruct (s64_cap p HC) as (Sw & _ & _). rewrite Sw.
  destruct (Z.ltb_spec (lcap (win p)) (llen (win p))) as [Lt|Ge].
  - assert (Hne : litems (win p) <> []).
    { apply (llen_pos_nonempty p); [exact HC|apply HC|]. destruct HC as (_&_&_&_&_&_&_&C1&_). lia. }
    destruct (lback_some_nonempty _ Hne) as (e & Eb). rewrite Eb.
    pose proof (lback_in _ _ Eb) as Hi.
    destruct (move_WB p e HC Hi) as (HC' & US & Et & Ew & Ebq & _ & _).
    set (p1 := with_prob (with_win p (lremove (win p) e)) (pushFront (prob p) e)) in *.
    destruct (IH p1 (match first with None => Some e | _ => first end) HC') as (HC2 & US2 & Et2 & Le & Hf2).
    { rewrite Ew. pose proof (nd_parts p HC) as (Nw & _). pose proof (without_length _ _ Nw Hi). lia. }
    { intros f Ef. rewrite Ebq. destruct first as [f0|]; inversion Ef; subst; [right; apply Hf; reflexivity|left; reflexivity]. }
    cbv zeta. split; [exact HC2|]. split; [exact (us_trans _ _ _ US US2)|]. split; [congruence|]. split; assumption.
  - cbv zeta. cbn [fst snd]. split; [exact HC|]. split; [apply us_refl|]. repeat split; auto.
Qed.

Lemma evictw_spec p : Core p ->
  let r := evictFromWindow p in
  Core (fst r) /\ unchanged_scalars p (fst r) /\ litems (prot (fst r)) = litems (prot p) /\
  llen (win (fst r)) <= lcap (win (fst r)) /\
  (forall f, snd r = Some f -> In f (litems (prob (fst r)))).
Proof. intro HC. unfold evictFromWindow. apply evictw_loop_spec; [exact HC|lia|discriminate]. Qed.

(* ---------- Remove ---------- *)
Lemma count_total p : total_count p = length (all_items p).
Proof. unfold total_count, all_items. rewrite !app_length. lia. Qed.

Lemma without_app a b id : without (a ++ b) id = without a id ++ without b id.
Proof. unfold without. apply filter_app. Qed.

Lemma core_sum p : Core p -> wsz p = sumpw (all_items p).
Proof.
  intros (_ & (Lw & _) & (Lb & _) & (Lt & _) & Hs & _). unfold all_items. rewrite !sumpw_app. lia.
Qed.

Lemma core_removed p p' e : Core p -> In e (all_items p) ->
  all_items p' = without (all_items p) (pid e) ->
  LOK (win p') -> LOK (prob p') -> LOK (prot p') -> wsz p' = wsz p - pw e ->
  pcap p' = pcap p -> lcap (win p') = lcap (win p) -> lcap (prot p') = lcap (prot p) -> perr p' = perr p ->
  Core p'.
Proof.
  intros HC Hi Ea Lw' Lb' Lt' Es Ec Ew Et Ee.
  pose proof (core_sum p HC) as Sum.
  destruct HC as (Hn & Lw & Lb & Lt & Hs & Hp & Hc & C1 & C2 & C3 & Ht & He).
  pose proof (without_sum _ _ Hn Hi) as WS.
  assert (Pe : 1 <= pw e <= pcap p) by (apply Hp, Hi).
  split; [rewrite Ea; apply without_nodup, Hn|].
  split; [exact Lw'|]. split; [exact Lb'|]. split; [exact Lt'|]. split.
  { destruct Lw' as [a _], Lb' as [b _], Lt' as [c _]. rewrite a, b, c, Es, Sum, <- WS, <- Ea.
    unfold all_items. rewrite !sumpw_app. lia. }
  split.
  { intros x Hx. rewrite Ea in Hx. apply without_in in Hx. rewrite Ec. apply Hp, Hx. }
  rewrite Ec, Ew, Et, Es, Ee.
  assert (0 <= sumpw (without (all_items p) (pid e))).
  { apply sumpw_nonneg. intros x Hx. apply without_in in Hx. apply Hp, Hx. }
  repeat split; try lia; auto.
Qed.

Lemma premove_spec p e : Core p -> In e (all_items p) ->
  let p' := premove p e in
  Core p' /\ wsz p' = wsz p - pw e /\ all_items p' = without (all_items p) (pid e) /\
  pcap p' = pcap p /\ lcap (win p') = lcap (win p) /\ lcap (prot p') = lcap (prot p) /\ psk p' = psk p /\
  hitsS p' = hitsS p /\ missS p' = missS p /\ pamount p' = pamount p /\
  litems (win p') = without (litems (win p)) (pid e) /\
  litems (prob p') = without (litems (prob p)) (pid e) /\
  litems (prot p') = without (litems (prot p)) (pid e).
Proof.
  intros HC Hi. cbv zeta.
  pose proof (nd_parts p HC) as (Nw & Nb & Nt & D1 & D2). pose proof (len_bounds p HC) as (a & b & c & d).
  pose proof (core_lt p HC) as (l1 & l2 & l3 & _).
  assert (Pe : 1 <= pw e <= pcap p) by (apply HC, Hi).
  pose proof (core_sum p HC) as Sum.
  pose proof HC as (Hn & Lw & Lb & Lt & Hs & Hp & Hc & C1 & C2 & C3 & Ht & He).
  pose proof (without_sum _ _ Hn Hi) as WS.
  assert (0 <= sumpw (without (all_items p) (pid e))).
  { apply sumpw_nonneg. intros x Hx. apply without_in in Hx. apply Hp, Hx. }
  assert (Wz : w64 (wsz p - w64 (pw e)) = wsz p - pw e).
  { assert (E1 : w64 (pw e) = pw e) by (unfold w64; apply Z.mod_small; bigs; lia). rewrite E1.
    unfold w64. apply Z.mod_small. bigs. lia. }
  assert (Lists : litems (win (premove p e)) = without (litems (win p)) (pid e) /\
                  litems (prob (premove p e)) = without (litems (prob p)) (pid e) /\
                  litems (prot (premove p e)) = without (litems (prot p)) (pid e) /\
                  LOK (win (premove p e)) /\ LOK (prob (premove p e)) /\ LOK (prot (premove p e))).
  { unfold premove, unlink. unfold all_items in Hi. apply in_app_or in Hi. destruct Hi as [Hi|Hi]; [|apply in_app_or in Hi; destruct Hi as [Hi|Hi]].
    - rewrite (region_win p e Hi). cbn [with_wsz with_win win prob prot lremove litems].
      destruct (LOK_remove (win p) e Nw Hi Lw (pos_sub p _ HC (inW p)) l1) as (R1 & _).
      split; [reflexivity|]. split.
      { symmetry. apply without_notin. intro X. apply (proj1 (D1 _ (in_map pid _ _ Hi))). exact X. }
      split.
      { symmetry. apply without_notin. intro X. apply (proj2 (D1 _ (in_map pid _ _ Hi))). exact X. }
      split; [exact R1|]. split; [exact Lb|exact Lt].
    - rewrite (region_prob p HC e Hi). cbn [with_wsz with_prob win prob prot lremove litems].
      destruct (LOK_remove (prob p) e Nb Hi Lb (pos_sub p _ HC (inB p)) l2) as (R1 & _).
      split.
      { symmetry. apply without_notin. intro X. apply (proj1 (D1 _ X)). apply in_map. exact Hi. }
      split; [reflexivity|]. split.
      { symmetry. apply without_notin. intro X. apply (D2 _ (in_map pid _ _ Hi)). exact X. }
      split; [exact Lw|]. split; [exact R1|exact Lt].
    - rewrite (region_prot p HC e Hi). cbn [with_wsz with_prot win prob prot lremove litems].
      destruct (LOK_remove (prot p) e Nt Hi Lt (pos_sub p _ HC (inT p)) l3) as (R1 & _).
      split.
      { symmetry. apply without_notin. intro X. apply (proj2 (D1 _ X)). apply in_map. exact Hi. }
      split.
      { symmetry. apply without_notin. intro X. apply (D2 _ X). apply in_map. exact Hi. }
      split; [reflexivity|]. split; [exact Lw|]. split; [exact Lb|exact R1]. }
  destruct Lists as (Ew & Eb & Et & Kw & Kb & Kt).
  assert (Ea : all_items (premove p e) = without (all_items p) (pid e)).
  { unfold all_items. rewrite Ew, Eb, Et, !without_app. reflexivity. }
  assert (Sc : wsz (premove p e) = wsz p - pw e /\ pcap (premove p e) = pcap p /\ lcap (win (premove p e)) = lcap (win p) /\
               lcap (prot (premove p e)) = lcap (prot p) /\ perr (premove p e) = perr p /\ psk (premove p e) = psk p /\
               hitsS (premove p e) = hitsS p /\ missS (premove p e) = missS p /\ pamount (premove p e) = pamount p).
  { unfold premove. rewrite Wz. unfold unlink. destruct (region p (pid e)) as [|q|q]; try (repeat split; reflexivity).
    repeat (destruct q as [q|q|]; try (repeat split; reflexivity)). }
  destruct Sc as (s1 & s2 & s3 & s4 & s5 & s6 & s7 & s8 & s9).
  split; [apply (core_removed p _ e HC Hi Ea Kw Kb Kt s1 s2 s3 s4 s5)|]. repeat split; auto.
Qed.

(* ---------- evictFromMain ---------- *)
Definition qlist (p : policy) (q : Z) : plist := if q =? 1 then prob p else if q =? 2 then prot p else win p.

Definition kept_scalars (p p' : policy) : Prop :=
  pcap p' = pcap p /\ lcap (win p') = lcap (win p) /\ lcap (prot p') = lcap (prot p) /\ psk p' = psk p /\
  hitsS p' = hitsS p /\ missS p' = missS p /\ pamount p' = pamount p.

Lemma ks_refl p : kept_scalars p p. Proof. repeat split. Qed.
Lemma ks_trans a b c : kept_scalars a b -> kept_scalars b c -> kept_scalars a c.
Proof. intros (a1&a2&a3&a4&a5&a6&a7) (b1&b2&b3&b4&b5&b6&b7). repeat split; congruence. Qed.

Lemma same_id_same p a b : Core p -> In a (all_items p) -> In b (all_items p) -> pid a = pid b -> a = b.
Proof.
  intros (Hn & _) Ha Hb E. induction (all_items p) as [|x l IH]; [destruct Ha|].
  cbn [ids_of map] in Hn. inversion Hn as [|? ? Hx Hd]; subst.
  destruct Ha as [->|Ha], Hb as [->|Hb]; auto.
  - exfalso. apply Hx. rewrite E. apply in_map. exact Hb.
  - exfalso. apply Hx. rewrite <- E. apply in_map. exact Ha.
Qed.

Lemma qlist_in p q x : In x (litems (qlist p q)) -> In x (all_items p).
Proof. unfold qlist. destruct (q =? 1); [apply inB|]. destruct (q =? 2); [apply inT|apply inW]. Qed.

Lemma region_qlist p q x : Core p -> (q = 1 \/ q = 2 \/ q = 4) -> In x (litems (qlist p q)) -> region p (pid x) = q.
Proof.
  intros HC Hq Hx. unfold qlist in Hx. destruct Hq as [-> | [-> | ->]]; cbn [Z.eqb Pos.eqb] in Hx.
  - apply region_prob; assumption.
  - apply region_prot; assumption.
  - apply region_win; assumption.
Qed.

Lemma prevPolicy_member p x a : Core p -> In x (all_items p) -> prevPolicy p (pid x) = Some a ->
  In a (all_items p) /\ pid a <> pid x.
Proof.
  intros HC Hx H. pose proof (nd_parts p HC) as (Nw & Nb & Nt & _).
  unfold all_items in Hx. apply in_app_or in Hx. destruct Hx as [Hx|Hx]; [|apply in_app_or in Hx; destruct Hx as [Hx|Hx]].
  - unfold prevPolicy in H. rewrite (region_win p x Hx) in H. change (prev_in (litems (win p)) (pid x) = Some a) in H. split; [apply inW; eapply prev_in_member; exact H|exact (prev_in_neq _ _ _ Nw H)].
  - unfold prevPolicy in H. rewrite (region_prob p HC x Hx) in H. change (prev_in (litems (prob p)) (pid x) = Some a) in H. split; [apply inB; eapply prev_in_member; exact H|exact (prev_in_neq _ _ _ Nb H)].
  - unfold prevPolicy in H. rewrite (region_prot p HC x Hx) in H. change (prev_in (litems (prot p)) (pid x) = Some a) in H. split; [apply inT; eapply prev_in_member; exact H|exact (prev_in_neq _ _ _ Nt H)].
Qed.

Lemma prevPolicy_none_ok p x : prevPolicy p x = None -> True. Proof. auto. Qed.

Lemma qlist_premove p e q : Core p -> In e (all_items p) ->
  litems (qlist (premove p e) q) = without (litems (qlist p q)) (pid e).
Proof.
  intros HC Hi. destruct (premove_spec p e HC Hi) as (_ & _ & _ & _ & _ & _ & _ & _ & _ & _ & Ew & Eb & Et).
  unfold qlist. destruct (q =? 1); [exact Eb|]. destruct (q =? 2); [exact Et|exact Ew].
Qed.

(* removing the back of the victim queue: the new back is its predecessor *)
Lemma lback_after_remove_back p q v : Core p -> (q = 1 \/ q = 2 \/ q = 4) ->
  lback (qlist p q) = Some v ->
  lback (qlist (premove p v) q) = prevPolicy p (pid v).
Proof.
  intros HC Hq Hb. pose proof (lback_in _ _ Hb) as Hi.
  assert (Ha : In v (all_items p)) by (eapply qlist_in; exact Hi).
  unfold lback at 1. rewrite (qlist_premove p v q HC Ha).
  unfold prevPolicy. rewrite (region_qlist p q v HC Hq Hi).
  destruct (last_some_split _ _ Hb) as (f & Ef).
  assert (Nq : NoDup (ids_of (litems (qlist p q)))).
  { pose proof (nd_parts p HC) as (Nw & Nb & Nt & _). unfold qlist. destruct (q =? 1); [exact Nb|]. destruct (q =? 2); [exact Nt|exact Nw]. }
  rewrite Ef in *. destruct (last_without f v Nq) as (E1 & E2). rewrite E1, E2.
  unfold qlist in Ef. destruct Hq as [-> | [-> | ->]]; cbn [Z.eqb Pos.eqb] in *; rewrite Ef; reflexivity.
Qed.

(* removing someone else keeps the back *)
Lemma lback_after_remove_other p q v c : Core p -> In c (all_items p) ->
  lback (qlist p q) = Some v -> pid v <> pid c ->
  lback (qlist (premove p c) q) = Some v.
Proof.
  intros HC Hc Hb N. unfold lback. rewrite (qlist_premove p c q HC Hc). apply last_without_other; assumption.
Qed.

Lemma lback_empty_after p q c : Core p -> In c (all_items p) -> lback (qlist p q) = None -> lback (qlist (premove p c) q) = None.
Proof.
  intros HC Hc Hb. apply lback_none in Hb. unfold lback. rewrite (qlist_premove p c q HC Hc), Hb. reflexivity.
Qed.

Definition stage (vq : Z) : nat := if vq =? 1 then 4%nat else if vq =? 2 then 2%nat else 0%nat.
Definition cflag (cand : option pent) (cq : Z) : nat := match cand with None => if cq =? 1 then 1%nat else 0%nat | _ => 0%nat end.

Definition EM (p : policy) (cand vict : option pent) (cq vq : Z) : Prop :=
  Core p /\ (vq = 1 \/ vq = 2 \/ vq = 4) /\ (cq = 1 \/ cq = 4) /\
  vict = lback (qlist p vq) /\
  (vq <> 1 -> litems (prob p) = []) /\ (vq = 4 -> litems (prot p) = []) /\
  (forall c, cand = Some c -> In c (all_items p)).

Lemma premove_count p e : Core p -> In e (all_items p) -> S (total_count (premove p e)) = total_count p.
Proof.
  intros HC Hi. destruct (premove_spec p e HC Hi) as (_ & _ & Ea & _). rewrite !count_total, Ea.
  destruct HC as (Hn & _). apply without_length; assumption.
Qed.

Lemma premove_keeps p e : Core p -> In e (all_items p) -> kept_scalars p (premove p e).
Proof. intros HC Hi. destruct (premove_spec p e HC Hi) as (_ & _ & _ & a & b & c & d & e1 & f & g & _). repeat split; auto. Qed.

Lemma premove_sub p e x : Core p -> In e (all_items p) -> In x (all_items (premove p e)) -> In x (all_items p) /\ pid x <> pid e.
Proof. intros HC Hi Hx. destruct (premove_spec p e HC Hi) as (_ & _ & Ea & _). rewrite Ea in Hx. apply without_in in Hx. exact Hx. Qed.

Lemma premove_keeps_member p e x : Core p -> In e (all_items p) -> In x (all_items p) -> pid x <> pid e -> In x (all_items (premove p e)).
Proof. intros HC Hi Hx N. destruct (premove_spec p e HC Hi) as (_ & _ & Ea & _). rewrite Ea. apply without_in. auto. Qed.

Lemma premove_empty_stays p e : Core p -> In e (all_items p) ->
  (litems (prob p) = [] -> litems (prob (premove p e)) = []) /\ (litems (prot p) = [] -> litems (prot (premove p e)) = []).
Proof.
  intros HC Hi. destruct (premove_spec p e HC Hi) as (_ & _ & _ & _ & _ & _ & _ & _ & _ & _ & _ & Eb & Et).
  split; intro E; [rewrite Eb, E|rewrite Et, E]; reflexivity.
Qed.

Lemma evictm_spec : forall n p cand vict cq vq rnd out,
  EM p cand vict cq vq -> (2 * total_count p + stage vq + cflag cand cq < n)%nat ->
  let r := evictm_loop n p cand vict cq vq rnd out in
  Core (fst r) /\ wsz (fst r) <= pcap (fst r) /\ kept_scalars p (fst r) /\
  (forall x, In x (all_items (fst r)) -> In x (all_items p)) /\
  (exists rem, snd r = out ++ rem /\ Permutation (ids_of (all_items p)) (rem ++ ids_of (all_items (fst r)))).
Proof.
  induction n as [|n IH]; intros p cand vict cq vq rnd out HE Hn; [lia|].
  destruct HE as (HC & Hvq & Hcq & Hv & Hpb & Hpt & Hcand). cbn [evictm_loop].
  destruct (Z.ltb_spec (pcap p) (wsz p)) as [Over|Fits].
  2:{ cbv zeta. cbn [fst snd]. split; [exact HC|]. split; [lia|]. split; [apply ks_refl|]. split; [auto|].
      exists []. rewrite app_nil_r. split; [reflexivity|apply Permutation_refl]. }
  (* the candidate switches to the window once *)
  set (cc := match cand with None => if cq =? 1 then (lback (win p), 4) else (cand, cq) | _ => (cand, cq) end).
  assert (Hcc : (forall c, fst cc = Some c -> In c (all_items p)) /\ (snd cc = 1 \/ snd cc = 4) /\
                (cflag (fst cc) (snd cc) <= cflag cand cq)%nat /\
                (cand = None -> cq = 1 -> snd cc = 4 /\ fst cc = lback (win p))).
  { unfold cc. destruct cand as [c0|].
    - cbn [fst snd]. split; [exact Hcand|]. split; [exact Hcq|]. split; [lia|]. intros; discriminate.
    - destruct (Z.eqb_spec cq 1) as [->|N]; cbn [fst snd].
      + split; [intros c Hc; apply inW; eapply lback_in; exact Hc|]. split; [right; reflexivity|].
        split; [unfold cflag; destruct (lback (win p)); cbn; lia|]. intros _ _. split; reflexivity.
      + split; [intros c Hc; discriminate|]. split; [exact Hcq|]. split; [lia|]. intros _ E. contradiction. }
  destruct cc as [cand' cq'] eqn:Ecc. cbn [fst snd] in Hcc. destruct Hcc as (Hc' & Hcq' & Hfl & Hsw).
  assert (GoRemove : forall x cand2 vict2,
            In x (all_items p) ->
            EM (premove p x) cand2 vict2 cq' vq ->
            let r := evictm_loop n (premove p x) cand2 vict2 cq' vq rnd (out ++ [pid x]) in
            Core (fst r) /\ wsz (fst r) <= pcap (fst r) /\ kept_scalars p (fst r) /\
            (forall y, In y (all_items (fst r)) -> In y (all_items p)) /\
            (exists rem, snd r = out ++ rem /\ Permutation (ids_of (all_items p)) (rem ++ ids_of (all_items (fst r))))).
  { intros x cand2 vict2 Hx HE2.
    pose proof (premove_count p x HC Hx) as Cnt.
    assert (Fl : (cflag cand2 cq' <= 1)%nat) by (unfold cflag; destruct cand2; [lia|destruct (cq' =? 1); lia]).
    destruct (IH (premove p x) cand2 vict2 cq' vq rnd (out ++ [pid x]) HE2 ltac:(lia)) as (A & B & K & S & (rem & R1 & R2)).
    cbv zeta. split; [exact A|]. split; [exact B|]. split; [exact (ks_trans _ _ _ (premove_keeps p x HC Hx) K)|].
    split; [intros y Hy; apply (premove_sub p x y HC Hx), S, Hy|].
    exists (pid x :: rem). split; [rewrite R1, <- app_assoc; reflexivity|].
    destruct (premove_spec p x HC Hx) as (_ & _ & Ea & _). rewrite Ea in R2.
    destruct HC as (Hnd & _).
    eapply perm_trans; [apply (Permutation_map pid), (perm_without _ x Hnd Hx)|].
    cbn [map app]. apply perm_skip. exact R2. }
  assert (EMafter : forall x cand2 vict2, In x (all_items p) ->
            vict2 = lback (qlist (premove p x) vq) ->
            (forall c, cand2 = Some c -> In c (all_items (premove p x))) ->
            EM (premove p x) cand2 vict2 cq' vq).
  { intros x cand2 vict2 Hx Hv2 Hc2. destruct (premove_spec p x HC Hx) as (HC2 & _).
    destruct (premove_empty_stays p x HC Hx) as (Eb & Et).
    split; [exact HC2|]. split; [exact Hvq|]. split; [exact Hcq'|]. split; [exact Hv2|]. split; [auto|]. split; auto. }
  destruct cand' as [c|]; destruct vict as [v|].
  - (* both present *)
    pose proof (Hc' c eq_refl) as Hci. symmetry in Hv. pose proof (lback_in _ _ Hv) as Hvi0. pose proof (qlist_in p vq v Hvi0) as Hvi.
    destruct (Z.eqb_spec (pid c) (pid v)) as [Eid|Nid].
    + (* the candidate is the victim *)
      assert (c = v) by (apply (same_id_same p); assumption). subst c.
      apply GoRemove; [exact Hvi|]. apply EMafter; [exact Hvi| |intros; discriminate].
      symmetry. apply lback_after_remove_back; assumption.
    + destruct (s64 (wsz p) <? pw c).
      * apply GoRemove; [exact Hci|]. apply EMafter; [exact Hci| |].
        -- symmetry. apply lback_after_remove_other; auto.
        -- intros a Ha. destruct (prevPolicy_member p c a HC Hci Ha) as (Hai & Hne). apply premove_keeps_member; auto.
      * destruct (admits p c v rnd).
        -- apply GoRemove; [exact Hvi|]. apply EMafter; [exact Hvi| |].
           ++ symmetry. apply lback_after_remove_back; assumption.
           ++ intros a Ha. destruct (premove_spec p v HC Hvi) as (HC2 & _).
              assert (Hc2 : In c (all_items (premove p v))) by (apply premove_keeps_member; auto).
              destruct (prevPolicy_member (premove p v) c a HC2 Hc2 Ha) as (Hai & _). exact Hai.
        -- apply GoRemove; [exact Hci|]. apply EMafter; [exact Hci| |].
           ++ symmetry. apply lback_after_remove_other; auto.
           ++ intros a Ha. destruct (prevPolicy_member p c a HC Hci Ha) as (Hai & Hne). apply premove_keeps_member; auto.
  - (* only a candidate *)
    pose proof (Hc' c eq_refl) as Hci.
    apply GoRemove; [exact Hci|]. apply EMafter; [exact Hci| |].
    + symmetry. apply lback_empty_after; auto.
    + intros a Ha. destruct (prevPolicy_member p c a HC Hci Ha) as (Hai & Hne). apply premove_keeps_member; auto.
  - (* only a victim *)
    symmetry in Hv. pose proof (lback_in _ _ Hv) as Hvi0. pose proof (qlist_in p vq v Hvi0) as Hvi.
    apply GoRemove; [exact Hvi|]. apply EMafter; [exact Hvi| |intros; discriminate].
    symmetry. apply lback_after_remove_back; assumption.
  - (* nobody left in the current queues: switch the victim queue, or stop *)
    assert (Hcq4 : cq' = 4 /\ lback (win p) = None \/ cq' = 4 /\ cq = 4).
    { destruct cand as [c0|]; [unfold cc in Ecc; inversion Ecc|].
      destruct (Z.eqb_spec cq 1) as [E1|N1].
      - destruct (Hsw eq_refl E1) as (A & B). left. split; [exact A|]. symmetry. exact B.
      - right. unfold cc in Ecc. destruct (cq =? 1) eqn:E; [lia|]. inversion Ecc. subst. lia. }
    assert (Cq4 : cq' = 4) by (destruct Hcq4 as [[A _]|[A _]]; exact A).
    destruct Hvq as [-> | [-> | ->]]; cbn [Z.eqb Pos.eqb].
    + (* probation exhausted -> protected *)
      assert (Epb : litems (prob p) = []) by (apply lback_none; symmetry; exact Hv).
      destruct (IH p None (lback (prot p)) cq' 2 rnd out) as (A & B & K & S & R).
      * split; [exact HC|]. split; [auto|]. split; [exact Hcq'|]. split; [reflexivity|]. split; [auto|]. split; [lia|intros; discriminate].
      * unfold stage, cflag in *. rewrite Cq4. cbn [Z.eqb Pos.eqb] in *. lia.
      * cbv zeta. auto.
    + (* protected exhausted -> window *)
      assert (Ept : litems (prot p) = []) by (apply lback_none; symmetry; exact Hv).
      destruct (IH p None (lback (win p)) cq' 4 rnd out) as (A & B & K & S & R).
      * split; [exact HC|]. split; [auto|]. split; [exact Hcq'|]. split; [reflexivity|]. split; [intros _; apply Hpb; lia|]. split; [auto|intros; discriminate].
      * unfold stage, cflag in *. rewrite Cq4. cbn [Z.eqb Pos.eqb] in *. lia.
      * cbv zeta. auto.
    + (* everything is empty: the total cannot exceed the capacity *)
      exfalso.
      assert (Ew : litems (win p) = []) by (apply lback_none; symmetry; exact Hv).
      pose proof (core_sum p HC) as Sum. unfold all_items in Sum. rewrite Ew, (Hpb ltac:(lia)), (Hpt eq_refl) in Sum. cbn in Sum.
      destruct HC as (_ & _ & _ & _ & _ & _ & Hc & _). lia.
Qed.
