(* Proof/ClimberP.v — the float32 hill climber (Model/Climber.v): the step never grows beyond what the
   constructor and a restart give it, so int(amount) always fits an int64 by a wide margin - for every
   capacity below 2^61, every sequence of samples and every shape of the restart test.  This discharges,
   for the amounts the code can produce, the guard "raw climb amount within int64" of the policy theorems (C07).
   Uses Flocq's specification of IEEE 754 arithmetic (hence the real-number axioms of the standard library). *)
From Coq Require Import ZArith Reals Lra Lia List Bool.
From Flocq Require Import Core.Core IEEE754.BinarySingleNaN.
From Verif Require Import Gen.Consts Model.Climber.
Import ListNotations.
Local Open Scope R_scope.

Notation fexp32 := (FLT_exp (3 - 128 - 24) 24).
Notation B2R32 := (@B2R 24 128).

Definition Bound : R := bpow radix2 61.
Definition small (x : f32) : Prop := is_finite x = true /\ Rabs (B2R32 x) <= Bound.

Lemma bound_lt_emax : Bound < bpow radix2 128.
Proof. unfold Bound. apply bpow_lt. lia. Qed.

Lemma bound_format : generic_format radix2 fexp32 Bound.
Proof. unfold Bound. apply generic_format_bpow. unfold FLT_exp. lia. Qed.

Lemma round_small (x : R) : Rabs x <= Bound ->
  Rabs (round radix2 fexp32 (round_mode mode_NE) x) <= Bound.
Proof. intro H. apply abs_round_le_generic; [apply fexp_correct; reflexivity|apply valid_rnd_round_mode|exact bound_format|exact H]. Qed.

Lemma mul_small (x y : f32) : is_finite x = true -> is_finite y = true ->
  Rabs (B2R32 x * B2R32 y) <= Bound -> small (f32_mul x y).
Proof.
  intros Fx Fy Hb. unfold f32_mul.
  pose proof (Bmult_correct 24 128 prec32 pmax32 mode_NE x y) as H.
  pose proof (round_small _ Hb) as Hr.
  rewrite Rlt_bool_true in H by (eapply Rle_lt_trans; [exact Hr|exact bound_lt_emax]).
  destruct H as (HR & HF & _). split.
  - rewrite HF, Fx, Fy. reflexivity.
  - rewrite HR. exact Hr.
Qed.

Lemma neg_small (x : f32) : small x -> small (f32_neg x).
Proof.
  intros [F B]. unfold f32_neg. split.
  - rewrite is_finite_Bopp. exact F.
  - rewrite B2R_Bopp, Rabs_Ropp. exact B.
Qed.

(* a constant float that is at most 1 in magnitude, decided by computation on its mantissa and exponent *)
Definition le_one_b (x : f32) : bool :=
  match x with
  | B754_zero _ => true
  | B754_finite _ m e _ => (e <=? 0)%Z && (Zpos m <=? 2 ^ (- e))%Z
  | _ => false
  end.

Lemma le_one_ok (x : f32) : le_one_b x = true -> is_finite x = true /\ Rabs (B2R32 x) <= 1.
Proof.
  destruct x as [s|s| |s m e pf]; cbn [le_one_b]; intro H; try discriminate.
  - split; [reflexivity|]. cbn [B2R]. rewrite Rabs_R0. lra.
  - apply andb_prop in H. destruct H as [He Hm]. apply Z.leb_le in He. apply Z.leb_le in Hm.
    split; [reflexivity|]. cbn [B2R]. unfold F2R. cbn [Fnum Fexp].
    rewrite Rabs_mult, <- abs_IZR, (Rabs_pos_eq (bpow radix2 e)) by apply bpow_ge_0.
    replace (Z.abs (cond_Zopp s (Z.pos m))) with (Z.pos m) by (destruct s; reflexivity).
    apply Rle_trans with (IZR (2 ^ (- e)) * bpow radix2 e).
    + apply Rmult_le_compat_r; [apply bpow_ge_0|apply IZR_le, Hm].
    + change 2%Z with (radix_val radix2). rewrite IZR_Zpower by lia. rewrite <- bpow_plus.
      replace (- e + e)%Z with 0%Z by lia. cbn. lra.
Qed.

Lemma k_decay_le_one : is_finite k_decay = true /\ Rabs (B2R32 k_decay) <= 1.
Proof. apply le_one_ok. vm_compute. reflexivity. Qed.

Lemma k_percent_le_one : is_finite k_percent = true /\ Rabs (B2R32 k_percent) <= 1.
Proof. apply le_one_ok. vm_compute. reflexivity. Qed.

Lemma ofZ_small (cap : Z) : (0 <= cap < 2 ^ 61)%Z -> small (f32_of_Z cap).
Proof.
  intro Hc. unfold f32_of_Z.
  pose proof (binary_normalize_correct 24 128 prec32 pmax32 mode_NE cap 0 false) as H. cbv zeta in H.
  assert (Hx : Rabs (F2R (Float radix2 cap 0)) <= Bound).
  { unfold F2R. cbn [Fnum Fexp bpow]. rewrite Rmult_1_r, <- abs_IZR. unfold Bound.
    change 2%Z with (radix_val radix2) in Hc. rewrite <- IZR_Zpower by lia. apply IZR_le. rewrite Z.abs_eq by lia. lia. }
  pose proof (round_small _ Hx) as Hr.
  rewrite Rlt_bool_true in H by (eapply Rle_lt_trans; [exact Hr|exact bound_lt_emax]).
  destruct H as (HR & HF & _). split; [exact HF|]. rewrite HR. exact Hr.
Qed.

Lemma scaled_small (x k : f32) : small x -> is_finite k = true /\ Rabs (B2R32 k) <= 1 -> small (f32_mul x k).
Proof.
  intros [Fx Bx] [Fk Bk]. apply mul_small; [exact Fx|exact Fk|].
  rewrite Rabs_mult. apply Rle_trans with (Rabs (B2R32 x) * 1); [|lra].
  apply Rmult_le_compat_l; [apply Rabs_pos|exact Bk].
Qed.

Definition cap_ok (c : climber) : Prop := (1 <= cl_cap c < 2 ^ 61)%Z.
Definition ClInv (c : climber) : Prop := cap_ok c /\ small (cl_step c).

Lemma climber_new_inv cap : (1 <= cap < 2 ^ 61)%Z -> ClInv (climber_new cap).
Proof.
  intro Hc. split; [exact Hc|]. unfold climber_new. cbn [cl_step].
  apply scaled_small; [|exact k_percent_le_one]. apply neg_small, ofZ_small. lia.
Qed.

Lemma pick_small (b : bool) (x : f32) : small x -> small (if b then x else f32_neg x).
Proof. intro H. destruct b; [exact H|apply neg_small, H]. Qed.

(* int(amount) of a small float *)
Lemma to_int_small (x : f32) : small x -> (- 2 ^ 61 <= f32_to_int x <= 2 ^ 61)%Z.
Proof.
  intros [F B].
  assert (Ht : (Z.abs (Btrunc x) <= 2 ^ 61)%Z).
  { apply le_IZR. rewrite abs_IZR. rewrite Btrunc_correct by exact pmax32.
    change 2%Z with (radix_val radix2). rewrite IZR_Zpower by lia.
    apply abs_round_le_generic; [apply FIX_exp_valid|apply valid_rnd_ZR| |exact B].
    apply generic_format_bpow. unfold FIX_exp. lia. }
  assert (Hr : f32_to_int x = Btrunc x).
  { destruct x as [s|s| |s m e pf]; try discriminate F; unfold f32_to_int;
      (destruct ((- two63c <=? _)%Z && (_ <? two63c)%Z) eqn:E; [reflexivity|]);
      apply andb_false_iff in E; unfold two63c in E; destruct E as [E|E];
      [apply Z.leb_gt in E|apply Z.ltb_ge in E| apply Z.leb_gt in E|apply Z.ltb_ge in E]; lia. }
  rewrite Hr. lia.
Qed.

Lemma climb_inv shape c hits misses : ClInv c ->
  ClInv (fst (climb_shape shape c hits misses)) /\ (- 2 ^ 61 <= snd (climb_shape shape c hits misses) <= 2 ^ 61)%Z.
Proof.
  intros [Hc Hs]. unfold climb_shape.
  destruct (((hits + misses) mod 18446744073709551616 =? 0)%Z); cbv beta iota zeta;
  match goal with |- context [restart_test shape ?d] => set (delta := d) end.
  all: set (amount := if f32_ge delta (B754_zero false) then cl_step c else f32_neg (cl_step c)).
  all: assert (Ha : small amount) by (apply pick_small, Hs).
  all: split; [|apply to_int_small, Ha].
  all: split; [exact Hc|]; cbn [cl_step fst].
  all: destruct (restart_test shape delta).
  all: try (apply pick_small, scaled_small; [apply ofZ_small; unfold cap_ok in Hc; lia|exact k_percent_le_one]).
  all: apply scaled_small; [exact Ha|exact k_decay_le_one].
Qed.

(* the raw amounts of a run of samples *)
Fixpoint amounts (shape : bool * Z * Z) (c : climber) (samples : list (Z * Z)) : list Z :=
  match samples with
  | [] => []
  | (h, m) :: r => let '(c', a) := climb_shape shape c h m in a :: amounts shape c' r
  end.

Theorem climber_amounts_in_range shape cap samples : (1 <= cap < 2 ^ 61)%Z ->
  Forall (fun a => (- 2 ^ 61 <= a <= 2 ^ 61)%Z) (amounts shape (climber_new cap) samples).
Proof.
  intro Hc. pose proof (climber_new_inv cap Hc) as I. revert I. generalize (climber_new cap).
  induction samples as [|[h m] r IH]; intros c I; cbn [amounts]; [constructor|].
  pose proof (climb_inv shape c h m I) as [I' A].
  destruct (climb_shape shape c h m) as [c' a]. cbn [fst snd] in *. constructor; [exact A|apply IH, I'].
Qed.

Lemma climb_amounts_meet_guard shape cap samples a : (1 <= cap < 2 ^ 61)%Z ->
  In a (amounts shape (climber_new cap) samples) -> (- 9223372036854775808 < a < 9223372036854775808)%Z.
Proof.
  intros Hc Hin. pose proof (climber_amounts_in_range shape cap samples Hc) as F.
  rewrite Forall_forall in F. specialize (F a Hin). lia.
Qed.

(* ---- the constructors' float32 arithmetic: NewTinyLfu / NewSlru never produce a window below 1 or above the capacity
   (so that mainSize := size - windowSize does not wrap), a negative protected capacity, or capacities that add up to
   2^61 or more - which is all the policy invariant needs of them (c07_init). *)

(* a nonnegative finite float x with x * den <= num, decided on mantissa and exponent *)
Definition le_rat_b (x : f32) (num den : Z) : bool :=
  match x with
  | B754_zero _ => (0 <=? num)%Z
  | B754_finite false m e _ => (e <=? 0)%Z && (Zpos m * den <=? num * 2 ^ (- e))%Z
  | _ => false
  end.

Lemma le_rat_ok (x : f32) num den : (0 < den)%Z -> le_rat_b x num den = true ->
  is_finite x = true /\ 0 <= B2R32 x /\ B2R32 x * IZR den <= IZR num.
Proof.
  intros Hd H. destruct x as [s|s| |s m e pf]; cbn [le_rat_b] in H; try discriminate.
  - apply Z.leb_le in H. split; [reflexivity|]. cbn [B2R]. split; [lra|]. rewrite Rmult_0_l. apply IZR_le, H.
  - destruct s; [discriminate|]. apply andb_prop in H. destruct H as [He Hm].
    apply Z.leb_le in He. apply Z.leb_le in Hm. split; [reflexivity|].
    cbn [B2R]. unfold F2R. cbn [Fnum Fexp cond_Zopp].
    assert (Pe : 0 < bpow radix2 e) by apply bpow_gt_0.
    split; [apply Rmult_le_pos; [apply IZR_le; lia|lra]|].
    apply IZR_le in Hm. rewrite !mult_IZR in Hm.
    change 2%Z with (radix_val radix2) in Hm. rewrite IZR_Zpower in Hm by lia.
    assert (E : bpow radix2 (- e) * bpow radix2 e = 1) by (rewrite <- bpow_plus; replace (- e + e)%Z with 0%Z by lia; reflexivity).
    set (a := IZR (Z.pos m)) in *. set (d := IZR den) in *. set (n := IZR num) in *.
    set (be := bpow radix2 e) in *. set (bme := bpow radix2 (- e)) in *.
    replace (a * be * d) with ((a * d) * be) by ring.
    apply Rle_trans with ((n * bme) * be); [apply Rmult_le_compat_r; [lra|exact Hm]|].
    rewrite Rmult_assoc, E. lra.
Qed.

Lemma k_window_small : is_finite k_window = true /\ 0 <= B2R32 k_window /\ B2R32 k_window * 64 <= 1.
Proof. apply (le_rat_ok k_window 1 64); [lia|vm_compute; reflexivity]. Qed.

Lemma k_protected_small : is_finite k_protected = true /\ 0 <= B2R32 k_protected /\ B2R32 k_protected * 8 <= 7.
Proof. apply (le_rat_ok k_protected 7 8); [lia|vm_compute; reflexivity]. Qed.

(* products bounded by an arbitrary representable number *)
Lemma mul_le (x y : f32) (Y : R) : is_finite x = true -> is_finite y = true ->
  generic_format radix2 fexp32 Y -> Y < bpow radix2 128 -> Rabs (B2R32 x * B2R32 y) <= Y ->
  is_finite (f32_mul x y) = true /\ Rabs (B2R32 (f32_mul x y)) <= Y.
Proof.
  intros Fx Fy GY LY Hb. unfold f32_mul.
  pose proof (Bmult_correct 24 128 prec32 pmax32 mode_NE x y) as H.
  assert (Hr : Rabs (round radix2 fexp32 (round_mode mode_NE) (B2R32 x * B2R32 y)) <= Y)
    by (apply abs_round_le_generic; [apply fexp_correct; reflexivity|apply valid_rnd_round_mode|exact GY|exact Hb]).
  rewrite Rlt_bool_true in H by (eapply Rle_lt_trans; [exact Hr|exact LY]).
  destruct H as (HR & HF & _). split; [rewrite HF, Fx, Fy; reflexivity|rewrite HR; exact Hr].
Qed.

Lemma mul_nonneg (x y : f32) : is_finite x = true -> is_finite y = true ->
  0 <= B2R32 x -> 0 <= B2R32 y -> Rabs (B2R32 x * B2R32 y) <= Bound -> 0 <= B2R32 (f32_mul x y).
Proof.
  intros Fx Fy Px Py Hb. unfold f32_mul.
  pose proof (Bmult_correct 24 128 prec32 pmax32 mode_NE x y) as H.
  pose proof (round_small _ Hb) as Hr.
  rewrite Rlt_bool_true in H by (eapply Rle_lt_trans; [exact Hr|exact bound_lt_emax]).
  destruct H as (HR & _). rewrite HR.
  apply round_ge_generic; [apply fexp_correct; reflexivity|apply valid_rnd_round_mode|apply generic_format_0|].
  apply Rmult_le_pos; assumption.
Qed.

Lemma ofZ_nonneg (n : Z) : (0 <= n < 2 ^ 61)%Z -> 0 <= B2R32 (f32_of_Z n).
Proof.
  intro Hc. unfold f32_of_Z.
  pose proof (binary_normalize_correct 24 128 prec32 pmax32 mode_NE n 0 false) as H. cbv zeta in H.
  assert (Hx : Rabs (F2R (Float radix2 n 0)) <= Bound).
  { unfold F2R. cbn [Fnum Fexp bpow]. rewrite Rmult_1_r, <- abs_IZR. unfold Bound.
    change 2%Z with (radix_val radix2) in Hc. rewrite <- IZR_Zpower by lia. apply IZR_le. rewrite Z.abs_eq by lia. lia. }
  pose proof (round_small _ Hx) as Hr.
  rewrite Rlt_bool_true in H by (eapply Rle_lt_trans; [exact Hr|exact bound_lt_emax]).
  destruct H as (HR & _). rewrite HR.
  apply round_ge_generic; [apply fexp_correct; reflexivity|apply valid_rnd_round_mode|apply generic_format_0|].
  unfold F2R. cbn [Fnum Fexp bpow]. rewrite Rmult_1_r. apply IZR_le. lia.
Qed.

(* uint(x) of a finite float with 0 <= x <= Y, Y an integer below 2^63 *)
Lemma to_uint_bounds (x : f32) (Yz : Z) : is_finite x = true -> 0 <= B2R32 x <= IZR Yz -> (Yz < 2 ^ 63)%Z ->
  (0 <= f32_to_uint x <= Yz)%Z.
Proof.
  intros F [P B] HY.
  assert (GI : forall z : Z, generic_format radix2 (FIX_exp 0) (IZR z)).
  { intro z. apply generic_format_FIX. exists (Float radix2 z 0); [unfold F2R; cbn [Fnum Fexp bpow]; lra|reflexivity]. }
  assert (T : (0 <= Btrunc x <= Yz)%Z).
  { split; apply le_IZR; rewrite Btrunc_correct by exact pmax32.
    - apply round_ge_generic; [apply FIX_exp_valid|apply valid_rnd_ZR|exact (GI 0%Z)|exact P].
    - apply round_le_generic; [apply FIX_exp_valid|apply valid_rnd_ZR|exact (GI Yz)|exact B]. }
  assert (Hr : f32_to_uint x = Btrunc x).
  { destruct x as [s|s| |s m e pf]; try discriminate F; unfold f32_to_uint;
      (destruct ((0 <=? _)%Z && (_ <? two63c)%Z) eqn:E; [reflexivity|]);
      apply andb_false_iff in E; unfold two63c in E; destruct E as [E|E];
      [apply Z.leb_gt in E|apply Z.ltb_ge in E| apply Z.leb_gt in E|apply Z.ltb_ge in E]; lia. }
  rewrite Hr. exact T.
Qed.

(* round(n) <= 2 * 2^(log2 n) for n >= 1: the next power of two is representable *)
Lemma ofZ_le_pow (n : Z) : (1 <= n < 2 ^ 61)%Z ->
  is_finite (f32_of_Z n) = true /\ Rabs (B2R32 (f32_of_Z n)) <= bpow radix2 (Z.log2 n + 1).
Proof.
  intro Hc. unfold f32_of_Z.
  pose proof (binary_normalize_correct 24 128 prec32 pmax32 mode_NE n 0 false) as H. cbv zeta in H.
  pose proof (Z.log2_spec n ltac:(lia)) as [L1 L2].
  assert (L0 : (0 <= Z.log2 n < 61)%Z) by (split; [apply Z.log2_nonneg|apply Z.log2_lt_pow2; lia]).
  assert (Hx : Rabs (F2R (Float radix2 n 0)) <= bpow radix2 (Z.log2 n + 1)).
  { unfold F2R. cbn [Fnum Fexp bpow]. rewrite Rmult_1_r, <- abs_IZR.
    rewrite <- IZR_Zpower by lia. apply IZR_le. rewrite Z.abs_eq by lia. change (radix_val radix2) with 2%Z.
    replace (Z.log2 n + 1)%Z with (Z.succ (Z.log2 n)) by lia. lia. }
  assert (Hr : Rabs (round radix2 fexp32 (round_mode mode_NE) (F2R (Float radix2 n 0))) <= bpow radix2 (Z.log2 n + 1)).
  { apply abs_round_le_generic; [apply fexp_correct; reflexivity|apply valid_rnd_round_mode| |exact Hx].
    apply generic_format_bpow. unfold FLT_exp. lia. }
  rewrite Rlt_bool_true in H by (eapply Rle_lt_trans; [exact Hr|apply bpow_lt; lia]).
  destruct H as (HR & HF & _). split; [exact HF|]. rewrite HR. exact Hr.
Qed.

Lemma init_window_ok size : (1 <= size < 2 ^ 61)%Z -> (1 <= init_window size <= size)%Z /\ (init_window size <= 2 ^ 55)%Z.
Proof.
  intro Hs. unfold init_window.
  destruct k_window_small as (Fk & Pk & Bk).
  destruct (ofZ_le_pow size Hs) as (Fn & Bn).
  pose proof (ofZ_nonneg size ltac:(lia)) as Pn.
  pose proof (Z.log2_spec size ltac:(lia)) as [L1 L2].
  assert (L0 : (0 <= Z.log2 size < 61)%Z) by (split; [apply Z.log2_nonneg|apply Z.log2_lt_pow2; lia]).
  (* the product is at most 2^(log2 size + 1) / 64 <= 2^(log2 size) <= size, and that power of two is representable *)
  set (Y := bpow radix2 (Z.log2 size)).
  assert (PB : Rabs (B2R32 (f32_of_Z size) * B2R32 k_window) <= Y).
  { rewrite Rabs_mult, (Rabs_pos_eq (B2R32 k_window)) by exact Pk.
    assert (E : bpow radix2 (Z.log2 size + 1) = 2 * Y) by (unfold Y; rewrite bpow_plus; cbn; lra).
    rewrite E in Bn. assert (0 < Y) by apply bpow_gt_0.
    apply Rle_trans with (2 * Y * B2R32 k_window); [apply Rmult_le_compat_r; assumption|]. nra. }
  assert (GY : generic_format radix2 fexp32 Y) by (apply generic_format_bpow; unfold FLT_exp; lia).
  assert (LY : Y < bpow radix2 128) by (apply bpow_lt; lia).
  destruct (mul_le _ _ Y Fn Fk GY LY PB) as (Fm & Bm).
  assert (PBb : Rabs (B2R32 (f32_of_Z size) * B2R32 k_window) <= Bound).
  { eapply Rle_trans; [exact PB|]. unfold Y, Bound. apply bpow_le. lia. }
  pose proof (mul_nonneg _ _ Fn Fk Pn Pk PBb) as Pm.
  rewrite Rabs_pos_eq in Bm by exact Pm.
  assert (YZ : Y = IZR (2 ^ Z.log2 size)) by (unfold Y; change 2%Z with (radix_val radix2); rewrite IZR_Zpower by lia; reflexivity).
  assert (P2 : (2 ^ Z.log2 size < 2 ^ 63)%Z) by (apply Z.pow_lt_mono_r; lia).
  pose proof (to_uint_bounds _ (2 ^ Z.log2 size) Fm ltac:(rewrite <- YZ; split; [exact Pm|exact Bm]) P2) as [U1 U2].
  (* and at most 2^55 *)
  assert (PB55 : Rabs (B2R32 (f32_of_Z size) * B2R32 k_window) <= bpow radix2 55).
  { rewrite Rabs_mult, (Rabs_pos_eq (B2R32 k_window)) by exact Pk.
    destruct (ofZ_small size ltac:(lia)) as (_ & B61). unfold Bound in B61.
    assert (E : bpow radix2 61 = 64 * bpow radix2 55) by (change (bpow radix2 61) with (bpow radix2 (6 + 55)); rewrite bpow_plus; change (bpow radix2 6) with 64; reflexivity).
    rewrite E in B61. assert (0 < bpow radix2 55) by apply bpow_gt_0.
    apply Rle_trans with (64 * bpow radix2 55 * B2R32 k_window); [apply Rmult_le_compat_r; assumption|]. nra. }
  assert (G55 : generic_format radix2 fexp32 (bpow radix2 55)) by (apply generic_format_bpow; unfold FLT_exp; lia).
  destruct (mul_le _ _ _ Fn Fk G55 ltac:(apply bpow_lt; lia) PB55) as (_ & Bm55).
  rewrite Rabs_pos_eq in Bm55 by exact Pm.
  assert (Y55 : bpow radix2 55 = IZR (2 ^ 55)) by (change 2%Z with (radix_val radix2); rewrite IZR_Zpower by lia; reflexivity).
  pose proof (to_uint_bounds _ (2 ^ 55) Fm ltac:(rewrite <- Y55; split; [exact Pm|exact Bm55]) ltac:(lia)) as [_ U55].
  destruct (Z.ltb_spec (f32_to_uint (f32_mul (f32_of_Z size) k_window)) 1); lia.
Qed.

Lemma init_main_ok size : (1 <= size < 2 ^ 61)%Z -> init_main size = (size - init_window size)%Z /\ (0 <= init_main size < 2 ^ 61)%Z.
Proof.
  intro Hs. destruct (init_window_ok size Hs) as ([W1 W2] & _). unfold init_main.
  rewrite Z.mod_small by lia. lia.
Qed.

Lemma init_protected_ok size : (1 <= size < 2 ^ 61)%Z -> (0 <= init_protected size <= 2 ^ 61 - 2 ^ 58)%Z.
Proof.
  intro Hs. destruct (init_main_ok size Hs) as (_ & M). unfold init_protected.
  set (main := init_main size) in *.
  destruct k_protected_small as (Fk & Pk & Bk).
  destruct (ofZ_small main ltac:(lia)) as (Fn & B61). unfold Bound in B61.
  pose proof (ofZ_nonneg main ltac:(lia)) as Pn.
  set (Y := F2R (Float radix2 7 58)).
  assert (YE : Y = 7 * bpow radix2 58) by (unfold Y, F2R; cbn [Fnum Fexp]; reflexivity).
  assert (E61 : bpow radix2 61 = 8 * bpow radix2 58) by (change (bpow radix2 61) with (bpow radix2 (3 + 58)); rewrite bpow_plus; change (bpow radix2 3) with 8; reflexivity).
  assert (P58 : 0 < bpow radix2 58) by apply bpow_gt_0.
  assert (PB : Rabs (B2R32 (f32_of_Z main) * B2R32 k_protected) <= Y).
  { rewrite Rabs_mult, (Rabs_pos_eq (B2R32 k_protected)) by exact Pk. rewrite E61 in B61. rewrite YE.
    apply Rle_trans with (8 * bpow radix2 58 * B2R32 k_protected); [apply Rmult_le_compat_r; assumption|]. nra. }
  assert (GY : generic_format radix2 fexp32 Y).
  { apply generic_format_FLT. exists (Float radix2 7 58); [reflexivity|cbn; lia|cbn; lia]. }
  assert (LY : Y < bpow radix2 128).
  { rewrite YE. apply Rlt_trans with (bpow radix2 61); [rewrite E61; lra|apply bpow_lt; lia]. }
  destruct (mul_le _ _ Y Fn Fk GY LY PB) as (Fm & Bm).
  assert (PBb : Rabs (B2R32 (f32_of_Z main) * B2R32 k_protected) <= Bound).
  { eapply Rle_trans; [exact PB|]. unfold Bound. rewrite YE, E61. lra. }
  pose proof (mul_nonneg _ _ Fn Fk Pn Pk PBb) as Pm.
  rewrite Rabs_pos_eq in Bm by exact Pm.
  assert (YZ : Y = IZR (2 ^ 61 - 2 ^ 58)).
  { rewrite YE. replace (2 ^ 61 - 2 ^ 58)%Z with (7 * 2 ^ 58)%Z by lia. rewrite mult_IZR.
    reflexivity. }
  exact (to_uint_bounds _ (2 ^ 61 - 2 ^ 58) Fm ltac:(rewrite <- YZ; split; [exact Pm|exact Bm]) ltac:(lia)).
Qed.

(* what c07_init asks of the constructor *)
Lemma constructor_capacities_ok size : (1 <= size < 2 ^ 61)%Z ->
  (1 <= init_window size <= size)%Z /\ (0 <= init_protected size)%Z /\ (init_window size + init_protected size < 2 ^ 61)%Z /\
  init_main size = (size - init_window size)%Z.
Proof.
  intro Hs. destruct (init_window_ok size Hs) as (W & W55). destruct (init_protected_ok size Hs) as [P1 P2].
  destruct (init_main_ok size Hs) as (M & _). repeat split; try lia; exact M.
Qed.

(* the restart rule as written: the step is reset to its full size, in the current direction, exactly when the hit
   ratio of the sample moved by at least the threshold in EITHER direction; otherwise it decays *)
Lemma climber_shape_as_written : c_climb_restart = (true, 1%Z, 20%Z).
Proof. reflexivity. Qed.

Lemma restart_rule c hits misses :
  let sum := ((hits + misses) mod 18446744073709551616)%Z in
  let delta := if (sum =? 0)%Z then B754_zero false else f32_sub (f32_div (f32_of_Z hits) (f32_of_Z sum)) (cl_hr c) in
  let amount := if f32_ge delta (B754_zero false) then cl_step c else f32_neg (cl_step c) in
  let full := f32_mul (f32_of_Z (cl_cap c)) k_percent in
  cl_step (fst (climb_f c hits misses)) =
    if f64_ge (Babs (f64_of_f32 delta)) (k_restart 1 20)
    then (if f32_ge amount (B754_zero false) then full else f32_neg full)
    else f32_mul amount k_decay.
Proof.
  cbv zeta. unfold climb_f, climb_shape. rewrite climber_shape_as_written.
  destruct (((hits + misses) mod 18446744073709551616 =? 0)%Z); reflexivity.
Qed.

(* with the one-sided test (seeded change C09b) a collapse of the hit ratio does not wake a sleeping climber:
   capacity 1000, step decayed to 0.5, hit ratio falls from 1.0 to 0.2: as written the climber turns round with a full
   step of 62 entries, with the one-sided test the step stays below one entry *)
Lemma one_sided_restart_refuted :
  let c := mkCl 1000 (f32_of_Z 1) (f32_div (f32_of_Z 1) (f32_of_Z 2)) in
  snd (climb_shape (true, 1, 20)%Z c 200 800) = 0%Z /\
  f32_to_int (cl_step (fst (climb_shape (true, 1, 20)%Z c 200 800))) = (-62)%Z /\
  f32_to_int (cl_step (fst (climb_shape (false, 1, 20)%Z c 200 800))) = 0%Z.
Proof. vm_compute. repeat split. Qed.
