(* Proof/PolicyL.v — list-level lemmas for the policy model (C07) *)
From Coq Require Import ZArith List Bool Lia Permutation.
From Coq Require Import ZifyBool.
From Verif Require Import Base.Word64 Model.Sketch Model.Policy.
Import ListNotations.
Open Scope Z_scope.

Definition sumpw (l : list pent) : Z := fold_right (fun e a => pw e + a) 0 l.

Lemma sumpw_app a b : sumpw (a ++ b) = sumpw a + sumpw b.
Proof. induction a as [|x a IH]; [reflexivity|]. change (sumpw ((x :: a) ++ b)) with (pw x + sumpw (a ++ b)). change (sumpw (x :: a)) with (pw x + sumpw a). lia. Qed.

Lemma sumpw_cons x l : sumpw (x :: l) = pw x + sumpw l.
Proof. reflexivity. Qed.

Definition ids_of (l : list pent) : list Z := map pid l.

Lemma without_in l id x : In x (without l id) <-> In x l /\ pid x <> id.
Proof.
  unfold without. rewrite filter_In. split; intros [A B]; split; auto; lia.
Qed.

Lemma without_notin l id : ~ In id (ids_of l) -> without l id = l.
Proof.
  induction l as [|x l IH]; intro H; [reflexivity|]. unfold without in *. cbn [filter].
  cbn [ids_of map In] in H. destruct (Z.eqb_spec (pid x) id) as [E|N]; [exfalso; apply H; left; exact E|].
  cbn [negb]. f_equal. apply IH. intro Hi. apply H. right. exact Hi.
Qed.

Lemma without_nodup l id : NoDup (ids_of l) -> NoDup (ids_of (without l id)).
Proof.
  induction l as [|x l IH]; intro H; [constructor|]. cbn [ids_of map] in H. inversion H as [|? ? Hn Hd]; subst.
  unfold without. cbn [filter]. destruct (negb (pid x =? id)); [|apply IH, Hd].
  cbn [ids_of map]. constructor; [|apply IH, Hd].
  intro Hi. apply Hn. unfold ids_of in *. apply in_map_iff in Hi. destruct Hi as (y & Ey & Hy).
  apply without_in in Hy. apply in_map_iff. exists y. tauto.
Qed.

Lemma without_sum l e : NoDup (ids_of l) -> In e l -> sumpw (without l (pid e)) = sumpw l - pw e.
Proof.
  induction l as [|x l IH]; intros Hn Hi; [destruct Hi|]. cbn [ids_of map] in Hn. inversion Hn as [|? ? Hx Hd]; subst.
  unfold without. cbn [filter]. destruct Hi as [->|Hi].
  - rewrite Z.eqb_refl. cbn [negb]. fold (without l (pid e)). rewrite without_notin by exact Hx. rewrite sumpw_cons. lia.
  - destruct (Z.eqb_spec (pid x) (pid e)) as [E|N].
    + exfalso. apply Hx. rewrite E. apply in_map. exact Hi.
    + cbn [negb]. fold (without l (pid e)). rewrite !sumpw_cons. rewrite IH by assumption. lia.
Qed.

Lemma without_length l e : NoDup (ids_of l) -> In e l -> S (length (without l (pid e))) = length l.
Proof.
  induction l as [|x l IH]; intros Hn Hi; [destruct Hi|]. cbn [ids_of map] in Hn. inversion Hn as [|? ? Hx Hd]; subst.
  unfold without. cbn [filter]. destruct Hi as [->|Hi].
  - rewrite Z.eqb_refl. cbn [negb]. fold (without l (pid e)). rewrite without_notin by exact Hx. reflexivity.
  - destruct (Z.eqb_spec (pid x) (pid e)) as [E|N].
    + exfalso. apply Hx. rewrite E. apply in_map. exact Hi.
    + cbn [negb length]. fold (without l (pid e)). rewrite IH by assumption. reflexivity.
Qed.

(* last element *)
Lemma lback_in l e : lback l = Some e -> In e (litems l).
Proof.
  unfold lback. induction (litems l) as [|x t IH]; cbn [map last]; [discriminate|].
  destruct t as [|y t']; cbn [map] in *; [intro H; inversion H; left; reflexivity|].
  intro H. right. apply IH. exact H.
Qed.

Lemma lback_none l : lback l = None -> litems l = [].
Proof.
  unfold lback. destruct (litems l) as [|x t]; [reflexivity|]. intro H. exfalso.
  revert x H. induction t as [|y t IH]; intros x H; cbn [map last] in H; [discriminate|]. apply (IH y H).
Qed.

Lemma last_some_split (l : list pent) e : last (map Some l) None = Some e -> exists f, l = f ++ [e].
Proof.
  induction l as [|x t IH]; cbn [map last]; [discriminate|].
  destruct t as [|y t']; cbn [map] in *.
  - intro H. inversion H. exists []. reflexivity.
  - intro H. destruct (IH H) as (f & E). exists (x :: f). rewrite E. reflexivity.
Qed.

(* predecessor *)
Lemma prev_in_app f a e : NoDup (ids_of (f ++ [a; e])) -> prev_in (f ++ [a; e]) (pid e) = Some a.
Proof.
  induction f as [|x f IH]; intro Hn.
  - cbn [app prev_in]. rewrite Z.eqb_refl. reflexivity.
  - assert (Hn' : NoDup (ids_of (f ++ [a; e]))) by (cbn [app ids_of map] in Hn; inversion Hn; assumption).
    (* the element after x is not e *)
    assert (Hy : forall y r, f ++ [a; e] = y :: r -> pid y <> pid e).
    { intros y r E Ey. unfold ids_of in Hn'. rewrite E in Hn'.
      destruct f as [|z f'].
      - cbn [app] in E. inversion E. subst y r. cbn [map] in Hn'. inversion Hn' as [|? ? Hx _]; subst. apply Hx. left. symmetry. exact Ey.
      - cbn [app] in E. inversion E. subst y r. cbn [map] in Hn'. inversion Hn' as [|? ? Hx _]; subst.
        apply Hx. rewrite Ey. rewrite map_app. apply in_or_app. right. right. left. reflexivity. }
    cbn [app]. destruct (f ++ [a; e]) as [|y r] eqn:E; [destruct f; discriminate|].
    cbn [prev_in]. destruct (Z.eqb_spec (pid y) (pid e)) as [Ey|Ny]; [exfalso; exact (Hy y r eq_refl Ey)|].
    apply IH. exact Hn'.
Qed.

Lemma prev_in_member l id a : prev_in l id = Some a -> In a l.
Proof.
  revert a. induction l as [|x l IH]; intros a H; [discriminate|]. destruct l as [|y r]; [discriminate|].
  cbn [prev_in] in H. destruct (pid y =? id); [inversion H; left; reflexivity|]. right. apply IH, H.
Qed.

Lemma prev_in_neq l id a : NoDup (ids_of l) -> prev_in l id = Some a -> pid a <> id.
Proof.
  revert a. induction l as [|x l IH]; intros a Hn H; [discriminate|]. destruct l as [|y r]; [discriminate|].
  cbn [prev_in] in H. cbn [ids_of map] in Hn. inversion Hn as [|? ? Hx Hd]; subst.
  destruct (Z.eqb_spec (pid y) id) as [E|N].
  - inversion H. subst a. intro Ex. apply Hx. left. congruence.
  - apply IH; assumption.
Qed.

(* removing the last element: the new last element is its predecessor *)
Lemma last_without f e : NoDup (ids_of (f ++ [e])) ->
  without (f ++ [e]) (pid e) = f /\
  last (map Some f) None = prev_in (f ++ [e]) (pid e).
Proof.
  intro Hn. split.
  - unfold without. rewrite filter_app. cbn [filter]. rewrite Z.eqb_refl. cbn [negb]. rewrite app_nil_r.
    fold (without f (pid e)). apply without_notin. unfold ids_of in *. rewrite map_app in Hn.
    apply NoDup_remove_2 in Hn. rewrite app_nil_r in Hn. exact Hn.
  - destruct (last (map Some f) None) as [a|] eqn:El.
    + destruct (last_some_split f a El) as (g & ->). rewrite <- app_assoc. cbn [app]. symmetry. apply prev_in_app.
      rewrite <- app_assoc in Hn. exact Hn.
    + assert (Ef : f = []).
      { clear Hn. destruct f as [|x t]; [reflexivity|]. exfalso. revert x El. induction t as [|y t IH]; intros x El; cbn [map last] in El; [discriminate|]. apply (IH y El). }
      subst f. reflexivity.
Qed.

(* removing a non-last element keeps the last *)
Lemma last_without_other (l : list pent) id e :
  last (map Some l) None = Some e -> pid e <> id -> last (map Some (without l id)) None = Some e.
Proof.
  intros H N. destruct (last_some_split l e H) as (f & ->).
  unfold without. rewrite filter_app. cbn [filter]. destruct (Z.eqb_spec (pid e) id); [congruence|]. cbn [negb].
  rewrite map_app. cbn [map]. apply last_last.
Qed.
