(* Proof/SketchP.v — lemmas about Model/Sketch.v (C17). *)
From Coq Require Import ZArith List Bool Lia.
From Coq Require Import ZifyBool.
From Verif Require Import Base.Word64 Model.Sketch Proof.Nibble.
Import ListNotations.
Open Scope Z_scope.
Ltac Zify.zify_post_hook ::= Z.div_mod_to_equations.

Definition wordOK (v : Z) : Prop := 0 <= v < two64.

(* table well-formedness: 8 * 2^k words, block mask 2^k - 1 *)
Definition TWF (s : sketch) : Prop :=
  exists k, 1 <= k <= 57 /\ blockMask s = 2 ^ k - 1 /\
            Z.of_nat (length (table s)) = 8 * 2 ^ k /\ Forall wordOK (table s).
Definition WF (s : sketch) : Prop :=
  TWF s /\ sampleSize s = 10 * Z.of_nat (length (table s)) /\ 0 <= additions s < sampleSize s.

Definition cnt (t : list Z) (i : Z) (j : nat) : Z := nib j (nthZ t i).

(* ---------- list plumbing ---------- *)
Lemma upd_nat_length l i v : length (upd_nat l i v) = length l.
Proof. revert i; induction l as [|x l IH]; intros [|i]; cbn [upd_nat length]; auto. Qed.

Lemma upd_nat_nth_same l i v : (i < length l)%nat -> nth i (upd_nat l i v) 0 = v.
Proof. revert i; induction l as [|x l IH]; intros [|i] H; cbn [upd_nat length nth] in *; try lia; auto. apply IH; lia. Qed.

Lemma upd_nat_nth_other l i j v : i <> j -> nth j (upd_nat l i v) 0 = nth j l 0.
Proof.
  revert i j; induction l as [|x l IH]; intros [|i] [|j] H; cbn [upd_nat nth]; try reflexivity; try congruence.
  apply IH; congruence.
Qed.

Lemma upd_nat_Forall (P : Z -> Prop) l i v : Forall P l -> P v -> Forall P (upd_nat l i v).
Proof.
  intros Hl Hv; revert i; induction Hl as [|x l Hx Hl IH]; intros [|i]; cbn [upd_nat]; constructor; auto.
Qed.

Lemma nthZ_ok t i : Forall wordOK t -> wordOK (nthZ t i).
Proof.
  intro H. unfold nthZ. destruct (Nat.lt_ge_cases (Z.to_nat i) (length t)) as [L|L].
  - rewrite Forall_forall in H. apply H, nth_In, L.
  - rewrite nth_overflow by exact L. unfold wordOK, two64. split; [apply Z.le_refl | reflexivity].
Qed.

(* ---------- inc ---------- *)
Lemma inc_spec t idx off :
  Forall wordOK t -> 0 <= idx < Z.of_nat (length t) -> (off < 16)%nat ->
  let r := inc t idx (Z.of_nat off) in
  length (fst r) = length t /\ Forall wordOK (fst r) /\
  (forall i j, 0 <= i -> (i, j) <> (idx, off) -> cnt (fst r) i j = cnt t i j) /\
  cnt (fst r) idx off = Z.min 15 (cnt t idx off + 1) /\
  snd r = negb (cnt t idx off =? 15).
Proof.
  intros Ht Hidx Hoff. unfold inc. cbv zeta.
  rewrite (Z.shiftl_mul_pow2 (Z.of_nat off) 2) by lia. change (2 ^ 2) with 4.
  replace (Z.of_nat off * 4) with (4 * Z.of_nat off) by lia.
  pose proof (shiftl15_lt_two64 off Hoff) as Hm.
  assert (Emask : w64 (Z.shiftl 15 (4 * Z.of_nat off)) = Z.shiftl 15 (4 * Z.of_nat off))
    by (unfold w64; apply Z.mod_small; exact Hm).
  rewrite !Emask.
  pose proof (nthZ_ok t idx Ht) as Hv. unfold wordOK in Hv.
  rewrite mask_test by lia. fold (cnt t idx off).
  pose proof (nib_range off (nthZ t idx)) as Hr. fold (cnt t idx off) in Hr.
  destruct (Z.eqb_spec (cnt t idx off) 15) as [E|E]; cbn [fst snd negb].
  - repeat split; auto. lia.
  - rewrite shiftl1_pow16.
    pose proof (pow16_lt_two64 off Hoff) as Hp. pose proof (pow16_pos off) as Hp0.
    assert (Hlt : cnt t idx off < 15) by lia.
    pose proof (add_pow_bound off (nthZ t idx) Hoff Hv Hlt) as Hb.
    assert (E2 : w64 (nthZ t idx + w64 (16 ^ Z.of_nat off)) = nthZ t idx + 16 ^ Z.of_nat off).
    { unfold w64. rewrite (Z.mod_small (16 ^ Z.of_nat off) two64) by lia.
      apply Z.mod_small. lia. }
    rewrite E2.
    destruct (nib_add_pow off (nthZ t idx) ltac:(lia) Hlt) as [N1 N2].
    unfold updZ. destruct (Z.ltb_spec idx 0) as [?|_]; [lia|].
    assert (Hin : (Z.to_nat idx < length t)%nat) by lia.
    repeat split.
    + apply upd_nat_length.
    + apply upd_nat_Forall; [exact Ht|]. unfold wordOK; lia.
    + intros i j Hi Hne. unfold cnt, nthZ.
      destruct (Nat.eq_dec (Z.to_nat i) (Z.to_nat idx)) as [Ei|Ei].
      * assert (i = idx) by lia. subst i. rewrite upd_nat_nth_same by exact Hin.
        apply N2. intro; subst j; congruence.
      * rewrite upd_nat_nth_other by congruence. reflexivity.
    + unfold cnt at 1, nthZ at 1. rewrite upd_nat_nth_same by exact Hin.
      fold (nthZ t idx). rewrite N1. unfold cnt in *. lia.
Qed.

Lemma inc_mono t idx off :
  Forall wordOK t -> 0 <= idx < Z.of_nat (length t) -> (off < 16)%nat ->
  forall i j, 0 <= i -> cnt t i j <= cnt (fst (inc t idx (Z.of_nat off))) i j.
Proof.
  intros Ht Hidx Hoff i j Hi.
  destruct (inc_spec t idx off Ht Hidx Hoff) as (_ & _ & Hoth & Hsame & _).
  destruct (Z.eq_dec i idx) as [Ei|Ei]; [destruct (Nat.eq_dec j off) as [Ej|Ej]|].
  - subst. rewrite Hsame. pose proof (nib_range off (nthZ t idx)). unfold cnt in *. lia.
  - rewrite Hoth; [lia|lia|]. intro X; inversion X; congruence.
  - rewrite Hoth; [lia|lia|]. intro X; inversion X; congruence.
Qed.

(* ---------- slots ---------- *)
Definition slot (s : sketch) (h : Z) (j : Z) : Z * Z :=
  indexOf (rehash h) (blockOf s h) j.

Lemma blockOf_eq s h k : 1 <= k <= 57 -> blockMask s = 2 ^ k - 1 -> 0 <= h ->
  blockOf s h = 8 * (h mod 2 ^ k).
Proof.
  intros Hk Hbm Hh. unfold blockOf. rewrite Hbm.
  replace (2 ^ k - 1) with (Z.ones k) by (rewrite Z.ones_equiv; lia).
  rewrite Z.land_ones by lia. rewrite Z.shiftl_mul_pow2 by lia. change (2 ^ 3) with 8.
  assert (0 < 2 ^ k) by (apply Z.pow_pos_nonneg; lia).
  assert (2 ^ k <= 2 ^ 57) by (apply Z.pow_le_mono_r; lia).
  unfold w64. rewrite Z.mod_small; [lia|]. unfold two64.
  change (2 ^ 57) with 144115188075855872 in *. lia.
Qed.

Lemma rehash_range h : 0 <= rehash h.
Proof.
  unfold rehash. cbv zeta. apply Z.lxor_nonneg.
  assert (0 <= w64 (h * rehashMul)) by (unfold w64, two64; lia).
  split; intro; [apply Z.shiftr_nonneg; lia | lia].
Qed.

Lemma slot_range s h j k :
  1 <= k <= 57 -> blockMask s = 2 ^ k - 1 -> Z.of_nat (length (table s)) = 8 * 2 ^ k ->
  0 <= h -> (j = 0 \/ j = 1 \/ j = 2 \/ j = 3) ->
  let '(i, o) := slot s h j in
  blockOf s h <= i < blockOf s h + 8 /\ 0 <= i < Z.of_nat (length (table s)) /\
  0 <= o < 16 /\ (i - blockOf s h) / 2 = j.
Proof.
  intros Hk Hbm Hlen Hh Hj. unfold slot, indexOf.
  rewrite (blockOf_eq s h k Hk Hbm Hh).
  assert (0 < 2 ^ k) by (apply Z.pow_pos_nonneg; lia).
  assert (2 ^ k <= 2 ^ 57) by (apply Z.pow_le_mono_r; lia).
  change (2 ^ 57) with 144115188075855872 in *.
  pose proof (rehash_range h) as Hr.
  set (ch := rehash h) in *.
  pose proof (Z.mod_pos_bound h (2 ^ k) ltac:(lia)) as Hmod.
  set (r := h mod 2 ^ k) in *. clearbody r. set (P := 2 ^ k) in *. clearbody P.
  assert (B : forall x, 0 <= x -> 0 <= Z.land x 1 <= 1).
  { intros x Hx. pose proof (Z.land_ones x 1 ltac:(lia)) as L.
    change (Z.ones 1) with 1 in L. change (2 ^ 1) with 2 in L. rewrite L. lia. }
  assert (O : forall x, 0 <= x -> 0 <= Z.land x 15 < 16).
  { intros x Hx. change 15 with (Z.ones 4). rewrite Z.land_ones by lia. change (2 ^ 4) with 16. lia. }
  assert (S : forall n, 0 <= n -> 0 <= Z.shiftr ch n) by (intros; apply Z.shiftr_nonneg; lia).
  assert (W8 : w8 (Z.shiftl 0 3) = 0 /\ w8 (Z.shiftl 1 3) = 8 /\ w8 (Z.shiftl 2 3) = 16 /\ w8 (Z.shiftl 3 3) = 24 /\
               w8 (Z.shiftl 0 1) = 0 /\ w8 (Z.shiftl 1 1) = 2 /\ w8 (Z.shiftl 2 1) = 4 /\ w8 (Z.shiftl 3 1) = 6)
    by (vm_compute; repeat split; reflexivity).
  destruct W8 as (W0 & W1 & W2 & W3 & V0 & V1 & V2 & V3).
  destruct Hj as [-> | [-> | [-> | ->]]].
  - rewrite W0, V0. pose proof (B _ (S 0 ltac:(lia))). pose proof (O (Z.shiftr (Z.shiftr ch 0) 1) ltac:(apply Z.shiftr_nonneg, S; lia)).
    unfold w64. rewrite Z.mod_small by (unfold two64; lia). lia.
  - rewrite W1, V1. pose proof (B _ (S 8 ltac:(lia))). pose proof (O (Z.shiftr (Z.shiftr ch 8) 1) ltac:(apply Z.shiftr_nonneg, S; lia)).
    unfold w64. rewrite Z.mod_small by (unfold two64; lia). lia.
  - rewrite W2, V2. pose proof (B _ (S 16 ltac:(lia))). pose proof (O (Z.shiftr (Z.shiftr ch 16) 1) ltac:(apply Z.shiftr_nonneg, S; lia)).
    unfold w64. rewrite Z.mod_small by (unfold two64; lia). lia.
  - rewrite W3, V3. pose proof (B _ (S 24 ltac:(lia))). pose proof (O (Z.shiftr (Z.shiftr ch 24) 1) ltac:(apply Z.shiftr_nonneg, S; lia)).
    unfold w64. rewrite Z.mod_small by (unfold two64; lia). lia.
Qed.
