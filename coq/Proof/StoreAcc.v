(* Proof/StoreAcc.v — C02: cost accounting of the plain store under any delivery order.
   Per entry id the state is summarised by a view (entry object, resident?, policy record,
   NEW events in flight, cost deltas in flight, REMOVE in flight?); the invariant is a predicate
   on each view; every primitive changes the view of one id and frames the others. *)
From Coq Require Import ZArith List Bool Lia Permutation.
From Coq Require Import ZifyBool.
From Verif Require Import Base.Word64 Model.Sketch Model.Expiry Model.Wheel Model.Policy Model.Store
  Proof.ExpiryP Proof.PolicyL Proof.PolicyI Proof.PolicyT Proof.PolicyO Proof.PolicyW Proof.StoreMap Proof.StoreInv.
Import ListNotations.
Open Scope Z_scope.

Definition resb (s : store) (id : Z) : bool := existsb (fun kv => snd kv =? id) (smap s).
Definition remb (q : list witem) (id : Z) : bool := existsb (fun i => i =? id) (rem_ids q).
Definition is_new (it : witem) : bool := wcode it =? cNEW.
Definition is_cost (it : witem) : bool := (wcode it =? cNEW) || (wcode it =? cUPDATE).
Definition n_new (q : list witem) (id : Z) : nat := length (filter (fun it => (wsid it =? id) && is_new it) q).
Definition pend (q : list witem) (id : Z) : Z :=
  fold_right (fun it a => (if (wsid it =? id) && is_cost it then wcost it else 0) + a) 0 q.

Lemma resb_true s id : resb s id = true <-> exists k, In (k, id) (smap s).
Proof.
  unfold resb. rewrite existsb_exists. split.
  - intros ([k v] & Hi & E). cbn in E. exists k. assert (v = id) by lia. subst. exact Hi.
  - intros (k & Hi). exists (k, id). split; [exact Hi|cbn; lia].
Qed.
Lemma resb_false s id : resb s id = false <-> forall k, ~ In (k, id) (smap s).
Proof.
  split.
  - intros H k Hi. assert (resb s id = true) by (apply resb_true; eauto). congruence.
  - intro H. destruct (resb s id) eqn:E; [|reflexivity]. apply resb_true in E. destruct E as (k & Hi). destruct (H k Hi).
Qed.
Lemma remb_true q id : remb q id = true <-> In id (rem_ids q).
Proof.
  unfold remb. rewrite existsb_exists. split; [intros (x & Hi & E); assert (x = id) by lia; subst; exact Hi|intro H; exists id; split; [exact H|lia]].
Qed.
Lemma remb_false q id : remb q id = false <-> ~ In id (rem_ids q).
Proof.
  split; [intros H Hi; apply remb_true in Hi; congruence|].
  intro H. destruct (remb q id) eqn:E; [apply remb_true in E; contradiction|reflexivity].
Qed.

Lemma n_new_app a b id : n_new (a ++ b) id = (n_new a id + n_new b id)%nat.
Proof. unfold n_new. rewrite filter_app, app_length. reflexivity. Qed.
Lemma n_new_cons it b id : n_new (it :: b) id = Nat.add (if (wsid it =? id) && is_new it then 1%nat else 0%nat) (n_new b id).
Proof. unfold n_new. cbn [filter]. destruct ((wsid it =? id) && is_new it); reflexivity. Qed.
Lemma pend_app a b id : pend (a ++ b) id = pend a id + pend b id.
Proof. unfold pend. induction a as [|x a IH]; cbn [app fold_right]; [lia|]. rewrite IH. lia. Qed.
Lemma pend_cons it b id : pend (it :: b) id = (if (wsid it =? id) && is_cost it then wcost it else 0) + pend b id.
Proof. reflexivity. Qed.
Lemma remb_app a b id : remb (a ++ b) id = remb a id || remb b id.
Proof. unfold remb. rewrite rem_ids_app, existsb_app. reflexivity. Qed.
Lemma remb_cons it b id : remb (it :: b) id = (is_rem it && (wsid it =? id)) || remb b id.
Proof. unfold remb. rewrite rem_ids_cons. destruct (is_rem it); cbn [app existsb andb orb]; reflexivity. Qed.

(* ---------- the per-entry invariant ---------- *)
Definition Good (cap t : Z) (ev : bool) (oe : option sentry) (r : bool) (ox : option pent) (n : nat) (pd : Z) (rm : bool) : Prop :=
  (n <= 1)%nat /\
  (r = true -> exists e, oe = Some e /\ f_removed e = false /\ spw e + pd = sweight e /\ 1 <= sweight e <= cap /\
                ((n = 1%nat /\ ox = None) \/ (n = 0%nat /\ ox <> None) \/ (ev = true /\ n = 0%nat /\ ox = None))) /\
  (forall x, ox = Some x -> ev = false /\ exists e, oe = Some e /\ f_removed e = false /\ f_deleted e = false /\ n = 0%nat /\
                pw x = spw e /\ (r = true \/ rm = true)) /\
  ((1 <= n)%nat -> ev = false /\ exists e, oe = Some e /\
                (f_deleted e = true \/ rm = true \/ r = true \/ (f_removed e = true /\ sexpire e <> 0 /\ sexpire e <= t))) /\
  (ev = true -> ox = None /\ n = 0%nat).

Definition inl (evl : list Z) (id : Z) : bool := existsb (fun i => i =? id) evl.

Definition view_good (t : Z) (evl : list Z) (s : store) (id : Z) : Prop :=
  Good (scap s) t (inl evl id) (get_ent s id) (resb s id) (lookup (pol s) id)
       (n_new (queue s) id) (pend (queue s) id) (remb (queue s) id).

Definition AccX (evl : list Z) (t : Z) (s : store) : Prop :=
  K s /\ PInv (pol s) /\ pcap (pol s) = scap s /\
  (forall e, In e (ents s) -> sid e < nextid s) /\
  (forall it, In it (queue s) -> wsid it < nextid s \/ (is_cost it = false /\ is_rem it = false)) /\
  (forall id, view_good t evl s id).
Definition Acc := AccX [].

Lemma Good_mono cap t t' ev oe r ox n pd rm : t <= t' -> Good cap t ev oe r ox n pd rm -> Good cap t' ev oe r ox n pd rm.
Proof.
  intros Ht (a & b & c & d & f). split; [exact a|]. split; [exact b|]. split; [exact c|]. split; [|exact f].
  intro H. destruct (d H) as (d1 & e & d2 & d3). split; [exact d1|]. exists e. split; [exact d2|].
  destruct d3 as [x|[x|[x|(x & y & z)]]]; auto. right. right. right. repeat split; auto. lia.
Qed.

(* an id nobody has used yet *)
Lemma fresh_view evl t s id : AccX evl t s -> nextid s <= id ->
  get_ent s id = None /\ resb s id = false /\ lookup (pol s) id = None /\ n_new (queue s) id = 0%nat /\ pend (queue s) id = 0 /\ remb (queue s) id = false.
Proof.
  intros (HK & HP & Hc & He & Hq & Hv) Hid. pose proof HK as (k1 & k1' & k2 & k3 & k4 & k5).
  assert (G : get_ent s id = None).
  { destruct (get_ent s id) as [e|] eqn:G; [|reflexivity]. pose proof (He e (get_ent_in s id e G)). rewrite (get_ent_sid s id e G) in H. lia. }
  assert (N : n_new (queue s) id = 0%nat /\ pend (queue s) id = 0 /\ remb (queue s) id = false).
  { clear - Hq Hid. unfold remb. induction (queue s) as [|it q IH]; [repeat split|].
    destruct IH as (a & b & c); [intros x Hx; apply Hq; right; exact Hx|].
    rewrite n_new_cons, pend_cons, rem_ids_cons, existsb_app, a, b, c.
    destruct (Hq it (or_introl eq_refl)) as [L|(C1 & C2)].
    - destruct (Z.eqb_spec (wsid it) id); [lia|]. cbn [andb]. destruct (is_rem it); cbn; repeat split; lia.
    - assert (is_new it = false) by (unfold is_cost, is_new in *; destruct (wcode it =? cNEW); [discriminate|reflexivity]).
      rewrite C1, C2, H, !andb_false_r. cbn. repeat split. }
  split; [exact G|]. split.
  - apply resb_false. intros k Hi. destruct (k3 k id Hi). lia.
  - split; [|exact N]. destruct (lookup (pol s) id) as [x|] eqn:L; [|reflexivity].
    destruct (Hv id) as (_ & _ & c & _ & _). unfold view_good in *. destruct (c x L) as (_ & e & Ge & _). congruence.
Qed.

Lemma view_same t t' evl evl' s s' id : t <= t' -> scap s' = scap s -> inl evl' id = inl evl id ->
  get_ent s' id = get_ent s id -> resb s' id = resb s id -> lookup (pol s') id = lookup (pol s) id ->
  n_new (queue s') id = n_new (queue s) id -> pend (queue s') id = pend (queue s) id -> remb (queue s') id = remb (queue s) id ->
  view_good t evl s id -> view_good t' evl' s' id.
Proof.
  intros Ht a b c d e f g h H. unfold view_good in *. rewrite a, b, c, d, e, f, g, h. eapply Good_mono; eassumption.
Qed.

Lemma opt_eq_iff {A} (a b : option A) : (forall x, a = Some x <-> b = Some x) -> a = b.
Proof.
  intro H. destruct a as [x|], b as [y|]; try reflexivity.
  - apply H. reflexivity.
  - pose proof (proj1 (H x) eq_refl). discriminate.
  - pose proof (proj2 (H y) eq_refl). discriminate.
Qed.

Lemma inl_cons_other id ev i : i <> id -> inl (id :: ev) i = inl ev i.
Proof. intro N. unfold inl. cbn [existsb]. destruct (Z.eqb_spec id i); [congruence|reflexivity]. Qed.
Lemma inl_false ev i : ~ In i ev -> inl ev i = false.
Proof. intro H. unfold inl. destruct (existsb _ ev) eqn:E; [|reflexivity]. apply existsb_exists in E. destruct E as (x & Hx & Ex). assert (x = i) by lia. subst. contradiction. Qed.
Lemma inl_true ev i : In i ev -> inl ev i = true.
Proof. intro H. unfold inl. apply existsb_exists. exists i. split; [exact H|lia]. Qed.

(* residency after the entry's own key is removed from the map *)
Lemma resb_mapdel s k id : K s -> In (k, id) (smap s) ->
  resb (set_smap s (map_del (smap s) k)) id = false /\
  (forall i, i <> id -> resb (set_smap s (map_del (smap s) k)) i = resb s i).
Proof.
  intros (k1 & k1' & k2 & k3 & k4 & k5) Hi. split.
  - apply resb_false. intros k' Hk. cbn [set_smap smap] in Hk. apply in_map_del in Hk. destruct Hk as (Hk & N).
    destruct (k3 k id Hi) as (_ & e & G & Ke & _). destruct (k3 k' id Hk) as (_ & e' & G' & Ke' & _). congruence.
  - intros i N. destruct (resb s i) eqn:E.
    + apply resb_true in E. destruct E as (k' & Hk). apply resb_true. exists k'. cbn [set_smap smap]. apply in_map_del. split; [exact Hk|].
      intro Ek. subst k'. pose proof (in_map_get _ _ _ k2 Hk). pose proof (in_map_get _ _ _ k2 Hi). congruence.
    + apply resb_false. intros k' Hk. cbn [set_smap smap] in Hk. apply in_map_del in Hk. rewrite resb_false in E. exact (E k' (proj1 Hk)).
Qed.

(* ---------- removeEntry when it fires (eviction, or expiry of a passed deadline) ---------- *)
Definition fires (reason now : Z) (e : sentry) : Prop :=
  reason = reasonEVICTED \/ (reason = reasonEXPIRED /\ sexpire e <> 0 /\ sexpire e <= now).

Lemma removeEntry_shape s id reason now e : K s -> get_ent s id = Some e -> fires reason now e ->
  let s' := fst (removeEntry s id reason now) in
  (forall i, get_ent s' i = if i =? id then Some (e_removed e true) else get_ent s i) /\
  pol s' = (if tracked s id then premove_id (pol s) id else pol s) /\
  queue s' = queue s /\ scap s' = scap s /\ nextid s' = nextid s /\
  resb s' id = false /\ (forall i, i <> id -> resb s' i = resb s i).
Proof.
  intros HK Ge Hf. cbv zeta. unfold removeEntry. rewrite Ge.
  assert (C1 : (reason =? reasonEXPIRED) && (sexpire e =? 0) = false).
  { destruct Hf as [->|(-> & N & _)]; [reflexivity|]. destruct (Z.eqb_spec (sexpire e) 0); [contradiction|apply andb_false_r]. }
  assert (C2 : (reason =? reasonEXPIRED) && (now <? sexpire e) = false).
  { destruct Hf as [->|(-> & _ & L)]; [reflexivity|]. destruct (Z.ltb_spec now (sexpire e)); [lia|apply andb_false_r]. }
  rewrite C1, C2.
  assert (Nr : (reason =? reasonREMOVED) = false) by (destruct Hf as [->|(-> & _)]; reflexivity). rewrite Nr.
  set (s1 := upd_ent s id (fun e0 => e_removed e0 true)).
  set (s2 := if tracked s1 id then set_pol s1 (premove_id (pol s1) id) else s1).
  set (s3 := if scheduled (whl s2) id then set_whl s2 (deschedule (whl s2) id) else s2).
  assert (G1 : forall i, get_ent s1 i = if i =? id then Some (e_removed e true) else get_ent s i).
  { intro i. unfold s1. rewrite get_ent_upd by reflexivity. destruct (Z.eqb_spec i id) as [->|N].
    - rewrite Ge, (get_ent_sid s id e Ge), Z.eqb_refl. reflexivity.
    - destruct (get_ent s i) as [e'|] eqn:G; [|reflexivity]. rewrite (get_ent_sid s i e' G). destruct (Z.eqb_spec i id); [contradiction|reflexivity]. }
  assert (G3 : (forall i, get_ent s3 i = get_ent s1 i) /\ smap s3 = smap s /\ queue s3 = queue s /\ scap s3 = scap s /\ nextid s3 = nextid s /\
               hyb s3 = hyb s /\ pol s3 = (if tracked s id then premove_id (pol s) id else pol s)).
  { unfold s3, s2. change (tracked s1 id) with (tracked s id). destruct (tracked s id); match goal with |- context [scheduled ?w id] => destruct (scheduled w id) end; (split; [intro i; reflexivity|]; repeat split). }
  destruct G3 as (G3 & M3 & Q3 & C3 & N3 & H3 & P3).
  assert (Hh : hyb s3 = false) by (rewrite H3; apply HK). rewrite Hh, andb_false_r. cbn [andb].
  assert (K3 : K s3).
  { unfold s3, s2. change (tracked s1 id) with (tracked s id).
    assert (K1 : K s1) by (apply K_upd; [apply kid_removed|exact HK]).
    destruct (tracked s id); match goal with |- context [scheduled ?w id] => destruct (scheduled w id) end; exact K1. }
  destruct (map_get (smap s3) (skey e)) as [id'|] eqn:Gm.
  - destruct (Z.eqb_spec id' id) as [->|N].
    + cbn [fst]. pose proof (map_get_in _ _ _ Gm) as Hin. destruct (resb_mapdel s3 (skey e) id K3 Hin) as (R1 & R2).
      split; [intro i; change (get_ent (set_smap s3 (map_del (smap s3) (skey e))) i) with (get_ent s3 i); rewrite G3; apply G1|].
      split; [exact P3|]. split; [exact Q3|]. split; [exact C3|]. split; [exact N3|]. split; [exact R1|].
      intros i Ni. rewrite (R2 i Ni). unfold resb. rewrite M3. reflexivity.
    + cbn [fst]. split; [intro i; rewrite G3; apply G1|]. split; [exact P3|]. split; [exact Q3|]. split; [exact C3|]. split; [exact N3|].
      split; [|intros i _; unfold resb; rewrite M3; reflexivity].
      apply resb_false. intros k Hk. rewrite M3 in Hk. destruct HK as (_ & _ & k2 & k3 & _). destruct (k3 k id Hk) as (_ & e' & G' & Ke' & _).
      rewrite Ge in G'. inversion G'. subst e'. rewrite <- M3 in Hk. pose proof (in_map_get _ _ _ ltac:(apply K3) Hk) as Gk. rewrite Ke' in Gm. congruence.
  - cbn [fst]. split; [intro i; rewrite G3; apply G1|]. split; [exact P3|]. split; [exact Q3|]. split; [exact C3|]. split; [exact N3|].
    split; [|intros i _; unfold resb; rewrite M3; reflexivity].
    apply resb_false. intros k Hk. rewrite M3 in Hk. destruct HK as (_ & _ & k2 & k3 & _). destruct (k3 k id Hk) as (_ & e' & G' & Ke' & _).
    rewrite Ge in G'. inversion G'. subst e'. rewrite <- M3 in Hk. pose proof (in_map_get _ _ _ ltac:(apply K3) Hk) as Gk. rewrite Ke' in Gm. congruence.
Qed.

Lemma tracked_false_lookup s id : Core (pol s) -> tracked s id = false -> lookup (pol s) id = None.
Proof.
  intros HC H. unfold tracked in H. destruct (lookup (pol s) id) as [x|] eqn:L; [|reflexivity]. exfalso.
  assert (ptracked (pol s) id) by (apply ptracked_lookup; [exact HC|eauto]). apply ptracked_region in H0.
  destruct (Z.eqb_spec (region (pol s) id) 0); [contradiction|discriminate].
Qed.

Lemma tracked_true_lookup s id : Core (pol s) -> tracked s id = true -> exists x, lookup (pol s) id = Some x.
Proof.
  intros HC H. unfold tracked in H. apply ptracked_lookup; [exact HC|]. apply ptracked_region.
  destruct (Z.eqb_spec (region (pol s) id) 0); [discriminate|assumption].
Qed.

(* the policy after removeEntry's Remove *)
Lemma pol_after_remove s id : PInv (pol s) ->
  let p' := if tracked s id then premove_id (pol s) id else pol s in
  PInv p' /\ pcap p' = pcap (pol s) /\ lookup p' id = None /\ (forall i, i <> id -> lookup p' i = lookup (pol s) i).
Proof.
  intro HP. cbv zeta. destruct (tracked s id) eqn:T.
  - destruct (premove_id_w (pol s) id HP) as (A & B & C & D). split; [exact A|]. split; [exact B|]. split.
    + destruct (lookup (premove_id (pol s) id) id) as [x|] eqn:L; [|reflexivity]. apply D in L. destruct L as (N & _). contradiction.
    + intros i N. apply opt_eq_iff. intro x. rewrite D. tauto.
  - split; [exact HP|]. split; [reflexivity|]. split; [apply tracked_false_lookup; [apply HP|exact T]|auto].
Qed.

Lemma removeEntry_evict_Acc ev t s id now : AccX (id :: ev) t s -> ~ In id ev ->
  AccX ev t (fst (removeEntry s id reasonEVICTED now)).
Proof.
  intros (HK & HP & Hc & He & Hq & Hv) Hni.
  destruct (removeEntry_K s id reasonEVICTED now HK ltac:(discriminate)) as (K' & N' & Q' & _).
  pose proof (removeEntry_ext s id reasonEVICTED now) as (_ & _ & _ & _ & EI & _ & SC & _).
  destruct (get_ent s id) as [e|] eqn:Ge.
  2:{ (* no such entry object: nothing happens; the id cannot be resident *)
    assert (E : fst (removeEntry s id reasonEVICTED now) = s) by (unfold removeEntry; rewrite Ge; reflexivity). rewrite E.
    split; [exact HK|]. split; [exact HP|]. split; [exact Hc|]. split; [exact He|]. split; [exact Hq|].
    intro i. destruct (Z.eq_dec i id) as [->|N].
    - destruct (Hv id) as (a & b & c & d & f). unfold view_good in *. rewrite Ge in *. rewrite (inl_true (id :: ev) id (or_introl eq_refl)) in *.
      rewrite (inl_false ev id Hni). destruct (f eq_refl) as (f1 & f2).
      split; [exact a|]. split; [intro R; destruct (b R) as (e0 & X & _); discriminate|]. split; [intros x X; rewrite f1 in X; discriminate|].
      split; [intro X; lia|discriminate].
    - eapply view_same; [apply Z.le_refl|reflexivity|symmetry; apply inl_cons_other; exact N| | | | | | |apply Hv]; reflexivity. }
  destruct (removeEntry_shape s id reasonEVICTED now e HK Ge (or_introl eq_refl)) as (G & P & Q & C & N & R1 & R2).
  destruct (pol_after_remove s id HP) as (P1 & P2 & P3 & P4). rewrite <- P in *.
  split; [exact K'|]. split; [exact P1|]. split; [rewrite C; congruence|]. split.
  { intros x Hx. destruct (EI x Hx) as (x0 & Hx0 & Sx & _). rewrite N, <- Sx. apply He, Hx0. }
  split; [rewrite Q, N; exact Hq|].
  intro i. destruct (Z.eq_dec i id) as [->|Ni].
  - destruct (Hv id) as (a & b & c & d & f). unfold view_good in *. rewrite (inl_true (id :: ev) id (or_introl eq_refl)) in *.
    destruct (f eq_refl) as (f1 & f2). rewrite G, Z.eqb_refl, R1, P3, Q, C, (inl_false ev id Hni).
    split; [exact a|]. split; [discriminate|]. split; [discriminate|]. split; [intro X; lia|discriminate].
  - eapply view_same; [apply Z.le_refl|exact C|symmetry; apply inl_cons_other; exact Ni| | | | | | |apply Hv].
    + rewrite G. destruct (Z.eqb_spec i id); [contradiction|reflexivity].
    + apply R2, Ni.
    + apply P4, Ni.
    + rewrite Q. reflexivity.
    + rewrite Q. reflexivity.
    + rewrite Q. reflexivity.
Qed.

Lemma remove_all_evict_Acc ev : forall t s now out, AccX ev t s -> NoDup ev ->
  Acc t (fst (remove_all s ev reasonEVICTED now out)).
Proof.
  induction ev as [|id r IH]; intros t s now out HA Hn; cbn [remove_all]; [exact HA|].
  inversion Hn as [|? ? Hi Hd]; subst.
  pose proof (removeEntry_evict_Acc r t s id now HA Hi) as A. destruct (removeEntry s id reasonEVICTED now) as [s' o]. cbn [fst] in A.
  apply IH; assumption.
Qed.

Lemma removeEntry_expire_Acc t s id now : Acc t s -> t <= now ->
  Acc now (fst (removeEntry s id reasonEXPIRED now)).
Proof.
  intros HA Ht. pose proof HA as (HK & HP & Hc & He & Hq & Hv).
  assert (Weak : Acc now s).
  { split; [exact HK|]. split; [exact HP|]. split; [exact Hc|]. split; [exact He|]. split; [exact Hq|].
    intro i. eapply view_same; [exact Ht| | | | | | | | |apply Hv]; reflexivity. }
  destruct (removeEntry_K s id reasonEXPIRED now HK ltac:(discriminate)) as (K' & N' & Q' & _).
  pose proof (removeEntry_ext s id reasonEXPIRED now) as (_ & _ & _ & _ & EI & _ & SC & _).
  destruct (get_ent s id) as [e|] eqn:Ge.
  2:{ assert (E : fst (removeEntry s id reasonEXPIRED now) = s) by (unfold removeEntry; rewrite Ge; reflexivity). rewrite E. exact Weak. }
  destruct (Z.eqb_spec (sexpire e) 0) as [Z0|NZ].
  { assert (E : fst (removeEntry s id reasonEXPIRED now) = s).
    { unfold removeEntry. rewrite Ge. change (reasonEXPIRED =? reasonEXPIRED) with true. rewrite Z0. reflexivity. } rewrite E. exact Weak. }
  destruct (Z.ltb_spec now (sexpire e)) as [Alive|Dead].
  { (* still alive: only the wheel changes *)
    assert (E : fst (removeEntry s id reasonEXPIRED now) = set_whl s (schedule (whl s) id (sexpire e))).
    { unfold removeEntry. rewrite Ge. change (reasonEXPIRED =? reasonEXPIRED) with true.
      destruct (Z.eqb_spec (sexpire e) 0); [contradiction|]. cbn [andb]. destruct (Z.ltb_spec now (sexpire e)); [reflexivity|lia]. }
    rewrite E. exact Weak. }
  destruct (removeEntry_shape s id reasonEXPIRED now e HK Ge (or_intror (conj eq_refl (conj NZ Dead)))) as (G & P & Q & C & N & R1 & R2).
  destruct (pol_after_remove s id HP) as (P1 & P2 & P3 & P4). rewrite <- P in *.
  split; [exact K'|]. split; [exact P1|]. split; [rewrite C; congruence|]. split.
  { intros x Hx. destruct (EI x Hx) as (x0 & Hx0 & Sx & _). rewrite N, <- Sx. apply He, Hx0. }
  split; [rewrite Q, N; exact Hq|].
  intro i. destruct (Z.eq_dec i id) as [->|Ni].
  - destruct (Hv id) as (a & b & c & d & f). unfold view_good in *. rewrite Ge in *.
    rewrite G, Z.eqb_refl, R1, P3, Q, C. change (inl [] id) with false in *.
    split; [exact a|]. split; [discriminate|]. split; [discriminate|]. split; [|discriminate].
    intro X. destruct (d X) as (_ & e0 & E0 & D). inversion E0. subst e0. split; [reflexivity|].
    exists (e_removed e true). split; [reflexivity|]. cbn [e_removed f_deleted f_removed sexpire].
    destruct D as [D|[D|[D|(D1 & D2 & D3)]]]; auto; right; right; right; repeat split; auto; lia.
  - eapply view_same; [exact Ht|exact C|reflexivity| | | | | | |apply Hv].
    + rewrite G. destruct (Z.eqb_spec i id); [contradiction|reflexivity].
    + apply R2, Ni.
    + apply P4, Ni.
    + rewrite Q. reflexivity.
    + rewrite Q. reflexivity.
    + rewrite Q. reflexivity.
Qed.

(* ---------- delivering one queued event: the frame ---------- *)
Lemma queue_other a it b i : i <> wsid it ->
  n_new (a ++ b) i = n_new (a ++ it :: b) i /\ pend (a ++ b) i = pend (a ++ it :: b) i /\ remb (a ++ b) i = remb (a ++ it :: b) i.
Proof.
  intro N. rewrite !n_new_app, !pend_app, !remb_app, n_new_cons, pend_cons, remb_cons.
  destruct (Z.eqb_spec (wsid it) i) as [E|_]; [congruence|]. cbn [andb]. rewrite andb_false_r. cbn [orb]. repeat split; lia.
Qed.

Lemma sink_frame t t' s a it b s' : Acc t s -> queue s = a ++ it :: b -> t <= t' ->
  K s' -> PInv (pol s') -> pcap (pol s') = scap s' -> scap s' = scap s -> nextid s' = nextid s ->
  (forall e, In e (ents s') -> sid e < nextid s') -> queue s' = a ++ b ->
  (forall i, i <> wsid it -> get_ent s' i = get_ent s i /\ resb s' i = resb s i /\ lookup (pol s') i = lookup (pol s) i) ->
  view_good t' [] s' (wsid it) -> Acc t' s'.
Proof.
  intros (HK & HP & Hc & He & Hq & Hv) Eq Ht K' P' C' SC N' E' Q' Fr Vid.
  split; [exact K'|]. split; [exact P'|]. split; [exact C'|]. split; [exact E'|]. split.
  - intros x Hx. rewrite Q' in Hx. rewrite N'. apply Hq. rewrite Eq. apply in_app_or in Hx. apply in_or_app. destruct Hx; [left|right; right]; assumption.
  - intro i. destruct (Z.eq_dec i (wsid it)) as [->|Ni]; [exact Vid|].
    destruct (Fr i Ni) as (F1 & F2 & F3). destruct (queue_other a it b i Ni) as (Q1 & Q2 & Q3).
    eapply view_same; [exact Ht|exact SC|reflexivity|exact F1|exact F2|exact F3| | | |apply Hv]; rewrite Q', Eq; assumption.
Qed.

(* facts about the item's own id read off the invariant *)
Lemma item_counts a it b :
  n_new (a ++ it :: b) (wsid it) = (n_new (a ++ b) (wsid it) + (if is_new it then 1 else 0))%nat /\
  pend (a ++ it :: b) (wsid it) = pend (a ++ b) (wsid it) + (if is_cost it then wcost it else 0) /\
  remb (a ++ it :: b) (wsid it) = remb (a ++ b) (wsid it) || is_rem it.
Proof.
  rewrite !n_new_app, !pend_app, !remb_app, n_new_cons, pend_cons, remb_cons, Z.eqb_refl. cbn [andb]. rewrite andb_true_r.
  split; [destruct (is_new it); lia|]. split; [destruct (is_cost it); lia|].
  destruct (remb a (wsid it)), (is_rem it), (remb b (wsid it)); reflexivity.
Qed.

Lemma get_ent_upd_other s id f i : (forall e, sid (f e) = sid e) -> i <> id -> get_ent (upd_ent s id f) i = get_ent s i.
Proof.
  intros Hf N. rewrite get_ent_upd by exact Hf. destruct (get_ent s i) as [e|] eqn:G; [|reflexivity].
  rewrite (get_ent_sid s i e G). destruct (Z.eqb_spec i id); [contradiction|reflexivity].
Qed.

Lemma ents_upd_bound s id f n : (forall e, sid (f e) = sid e) -> (forall e, In e (ents s) -> sid e < n) ->
  forall e, In e (ents (upd_ent s id f)) -> sid e < n.
Proof.
  intros Hf H e Hi. unfold upd_ent in Hi. cbn [ents set_ents] in Hi. apply in_map_iff in Hi. destruct Hi as (x & <- & Hx).
  destruct (sid x =? id); [rewrite Hf|]; apply H, Hx.
Qed.

(* Good reads an entry only through five fields *)
Lemma Good_map g cap t ev oe r ox n pd rm :
  (forall e, f_removed (g e) = f_removed e /\ f_deleted (g e) = f_deleted e /\ spw (g e) = spw e /\
             sweight (g e) = sweight e /\ sexpire (g e) = sexpire e) ->
  Good cap t ev oe r ox n pd rm -> Good cap t ev (option_map g oe) r ox n pd rm.
Proof.
  intros Hg (a & b & c & d & f). split; [exact a|]. split; [|split; [|split; [|exact f]]].
  - intro R. destruct (b R) as (e & E & b1 & b2 & b3 & b4). exists (g e). destruct (Hg e) as (g1 & g2 & g3 & g4 & g5).
    rewrite E. split; [reflexivity|]. rewrite g1, g3, g4. auto.
  - intros x X. destruct (c x X) as (c0 & e & E & c1 & c2 & c3 & c4 & c5). split; [exact c0|]. exists (g e). destruct (Hg e) as (g1 & g2 & g3 & g4 & g5).
    rewrite E. split; [reflexivity|]. rewrite g1, g2, g3. auto.
  - intro X. destruct (d X) as (d0 & e & E & d1). split; [exact d0|]. exists (g e). destruct (Hg e) as (g1 & g2 & g3 & g4 & g5).
    rewrite E. split; [reflexivity|]. rewrite g1, g2, g5. exact d1.
Qed.

Definition cost_ok (s : store) (it : witem) : Prop :=
  forall e, get_ent s (wsid it) = Some e -> is_cost it = true ->
    - two63 <= spw e + wcost it < two63 /\
    ((is_new it = true \/ tracked s (wsid it) = true) -> 1 <= spw e + wcost it <= scap s).

(* the dequeued state *)
Lemma dequeue_facts t s a it b : Acc t s -> queue s = a ++ it :: b ->
  let s0 := set_queue s (a ++ b) in
  K s0 /\ rem_pre s0 it /\ PInv (pol s0) /\ pcap (pol s0) = scap s0 /\
  (forall e, In e (ents s0) -> sid e < nextid s0).
Proof.
  intros (HK & HP & Hc & He & Hq & Hv) Eq. cbv zeta. destruct (K_dequeue s a it b HK Eq) as (A & B & _).
  split; [exact A|]. split; [exact B|]. split; [exact HP|]. split; [exact Hc|exact He].
Qed.

(* ---------- REMOVE ---------- *)
Lemma sink_REMOVE_Acc t s a it b now a0 rnd : Acc t s -> queue s = a ++ it :: b -> t <= now -> wcode it = cREMOVE ->
  Acc now (fst (sinkWrite (set_queue s (a ++ b)) it now a0 rnd)).
Proof.
  intros HA Eq Ht Cr. pose proof HA as (HK & HP & Hc & He & Hq & Hv).
  destruct (dequeue_facts t s a it b HA Eq) as (K0 & Pre & _). set (s0 := set_queue s (a ++ b)) in *.
  assert (Er : is_rem it = true) by (unfold is_rem; rewrite Cr; reflexivity).
  destruct (Pre Er) as (Nres & Nrem & (e & Ge & Fd)). set (id := wsid it) in *.
  destruct (sinkWrite_K s0 it now a0 rnd K0 Pre) as (K' & N' & Q' & _).
  (* compute the result *)
  assert (Sh : exists e', (forall i, get_ent (fst (sinkWrite s0 it now a0 rnd)) i = if i =? id then Some e' else get_ent s i) /\
             f_deleted e' = true /\
             pol (fst (sinkWrite s0 it now a0 rnd)) = (if tracked s id then premove_id (pol s) id else pol s) /\
             smap (fst (sinkWrite s0 it now a0 rnd)) = smap s /\ scap (fst (sinkWrite s0 it now a0 rnd)) = scap s).
  { unfold sinkWrite. fold id. rewrite Ge, Fd, Cr.
    change (cREMOVE =? cREMOVE) with true. change (cREMOVE =? cNEW) with false. cbn [negb andb]. rewrite andb_false_r.
    set (s1 := upd_ent s0 id (fun e0 => e_deleted e0 true)).
    set (s2 := if wnvm it then upd_ent s1 id (fun e0 => e_nvm e0 true) else s1).
    assert (G2 : exists e2, (forall i, get_ent s2 i = if i =? id then Some e2 else get_ent s i) /\ pol s2 = pol s /\ smap s2 = smap s /\ scap s2 = scap s /\ whl s2 = whl s).
    { unfold s2. destruct (wnvm it).
      - exists (e_nvm (e_deleted e true) true). split; [|repeat split]. intro i. destruct (Z.eqb_spec i id) as [->|N].
        + rewrite (get_ent_upd_same s1 id (fun e0 => e_nvm e0 true) (e_deleted e true)); [reflexivity|reflexivity|].
          unfold s1. exact (get_ent_upd_same s0 id (fun e0 => e_deleted e0 true) e ltac:(reflexivity) Ge).
        + rewrite get_ent_upd_other by (auto || reflexivity). unfold s1. rewrite get_ent_upd_other by (auto || reflexivity). reflexivity.
      - exists (e_deleted e true). split; [|repeat split]. intro i. destruct (Z.eqb_spec i id) as [->|N].
        + unfold s1. exact (get_ent_upd_same s0 id (fun e0 => e_deleted e0 true) e ltac:(reflexivity) Ge).
        + unfold s1. rewrite get_ent_upd_other by (auto || reflexivity). reflexivity. }
    destruct G2 as (e2 & G2 & P2 & M2 & C2 & W2).
    unfold removeEntry. rewrite (G2 id), Z.eqb_refl. change (reasonREMOVED =? reasonEXPIRED) with false. cbn [andb].
    change (reasonREMOVED =? reasonREMOVED) with true.
    set (s3 := upd_ent s2 id (fun e0 => e_removed e0 true)).
    set (s4 := if tracked s3 id then set_pol s3 (premove_id (pol s3) id) else s3).
    set (s5 := if scheduled (whl s4) id then set_whl s4 (deschedule (whl s4) id) else s4).
    cbn [fst].
    exists (e_deleted (e_removed e2 true) true). split; [|split; [reflexivity|]].
    - intro i. destruct (Z.eqb_spec i id) as [->|N].
      + apply (get_ent_upd_same s5 id (fun e0 => e_deleted e0 true) (e_removed e2 true)); [reflexivity|].
        assert (G5 : get_ent s5 id = get_ent s3 id) by (unfold s5, s4; destruct (tracked s3 id); match goal with |- context [scheduled ?w id] => destruct (scheduled w id) end; reflexivity).
        rewrite G5. unfold s3. apply (get_ent_upd_same s2 id (fun e0 => e_removed e0 true) e2); [reflexivity|]. rewrite G2, Z.eqb_refl. reflexivity.
      + rewrite get_ent_upd_other by (auto || reflexivity).
        assert (G5 : get_ent s5 i = get_ent s3 i) by (unfold s5, s4; destruct (tracked s3 id); match goal with |- context [scheduled ?w id] => destruct (scheduled w id) end; reflexivity).
        rewrite G5. unfold s3. rewrite get_ent_upd_other by (auto || reflexivity). rewrite G2. destruct (Z.eqb_spec i id); [contradiction|reflexivity].
    - unfold s5, s4. change (tracked s3 id) with (negb (region (pol s2) id =? 0)). rewrite P2. change (negb (region (pol s) id =? 0)) with (tracked s id).
      destruct (tracked s id); match goal with |- context [scheduled ?w id] => destruct (scheduled w id) end; cbn; rewrite ?P2, ?M2, ?C2; repeat split. }
  destruct Sh as (e' & G & Fd' & P & M & C).
  destruct (pol_after_remove s id HP) as (P1 & P2 & P3 & P4). rewrite <- P in *.
  apply (sink_frame t now s a it b); auto.
  - rewrite C. congruence.
  - intros x Hx. pose proof (sinkWrite_ext s0 it now a0 rnd) as (_ & _ & _ & _ & EI & _).
    destruct (EI x Hx) as (x0 & Hx0 & Sx & _). rewrite N', <- Sx. apply He, Hx0.
  - fold id. intros i Ni. split; [rewrite G; destruct (Z.eqb_spec i id); [contradiction|reflexivity]|].
    split; [unfold resb; rewrite M; reflexivity|apply P4, Ni].
  - fold id. unfold view_good. rewrite G, Z.eqb_refl, P3, Q', C. change (queue s0) with (a ++ b).
    destruct (Hv id) as (va & vb & vc & vd & vf). rewrite Eq in va, vd. destruct (item_counts a it b) as (I1 & I2 & I3). fold id in I1, I2, I3.
    assert (Nn : is_new it = false) by (unfold is_new; rewrite Cr; reflexivity). rewrite Nn in I1.
    assert (Rf : resb (fst (sinkWrite s0 it now a0 rnd)) id = false) by (unfold resb; rewrite M; apply resb_false; exact Nres).
    rewrite Rf. split; [lia|]. split; [discriminate|]. split; [discriminate|]. split; [|discriminate].
    intros _. split; [reflexivity|]. exists e'. split; [reflexivity|]. left. exact Fd'.
Qed.

(* ---------- delivering an event that makes the policy evict ---------- *)
Lemma Good_evicted cap t oe r x n pd rm : Good cap t false oe r (Some x) n pd rm -> Good cap t true oe r None n pd rm.
Proof.
  intros (a & b & c & d & f). destruct (c x eq_refl) as (_ & e & E & c1 & c2 & c3 & c4 & c5).
  split; [exact a|]. split; [|split; [discriminate|split; [intro X; lia|intros _; auto]]].
  intro R. destruct (b R) as (e0 & E0 & b1 & b2 & b3 & _). exists e0. split; [exact E0|]. split; [exact b1|]. split; [exact b2|]. split; [exact b3|]. right. right. repeat split; auto.
Qed.

Lemma sink_frame_ev t t' s a it b s' ev : Acc t s -> queue s = a ++ it :: b -> t <= t' ->
  K s' -> PInv (pol s') -> pcap (pol s') = scap s' -> scap s' = scap s -> nextid s' = nextid s ->
  (forall e, In e (ents s') -> sid e < nextid s') -> queue s' = a ++ b ->
  (forall i, i <> wsid it -> get_ent s' i = get_ent s i /\ resb s' i = resb s i /\
     (In i ev -> lookup (pol s') i = None /\ exists x, lookup (pol s) i = Some x) /\
     (~ In i ev -> lookup (pol s') i = lookup (pol s) i)) ->
  view_good t' ev s' (wsid it) -> AccX ev t' s'.
Proof.
  intros (HK & HP & Hc & He & Hq & Hv) Eq Ht K' P' C' SC N' E' Q' Fr Vid.
  split; [exact K'|]. split; [exact P'|]. split; [exact C'|]. split; [exact E'|]. split.
  - intros x Hx. rewrite Q' in Hx. rewrite N'. apply Hq. rewrite Eq. apply in_app_or in Hx. apply in_or_app. destruct Hx; [left|right; right]; assumption.
  - intro i. destruct (Z.eq_dec i (wsid it)) as [->|Ni]; [exact Vid|].
    destruct (Fr i Ni) as (F1 & F2 & F3 & F4). destruct (queue_other a it b i Ni) as (Q1 & Q2 & Q3).
    destruct (in_dec Z.eq_dec i ev) as [Hin|Hout].
    + destruct (F3 Hin) as (L0 & x & Lx). pose proof (Hv i) as G. unfold view_good in G. rewrite Lx in G. change (inl [] i) with false in G.
      unfold view_good. rewrite (inl_true ev i Hin), F1, F2, L0, SC, Q', Q1, Q2, Q3, <- Eq.
      apply (Good_evicted _ _ _ _ x). eapply Good_mono; [exact Ht|exact G].
    + eapply (view_same t t' [] ev s s' i); [exact Ht|exact SC|rewrite (inl_false ev i Hout); reflexivity|exact F1|exact F2|exact (F4 Hout)| | | |apply Hv]; rewrite Q', Eq; assumption.
Qed.

(* ---------- generic shape of "update the entry object of id" ---------- *)
Lemma upd_shape s id f e : (forall x, sid (f x) = sid x) -> get_ent s id = Some e ->
  (forall i, get_ent (upd_ent s id f) i = if i =? id then Some (f e) else get_ent s i).
Proof.
  intros Hf Ge i. destruct (Z.eqb_spec i id) as [->|N]; [apply get_ent_upd_same; assumption|apply get_ent_upd_other; assumption].
Qed.

Definition nvm_ent (it : witem) (e : sentry) : sentry := if wnvm it then e_nvm e true else e.

Lemma s2_shape s0 it e : K s0 -> get_ent s0 (wsid it) = Some e ->
  let s2 := if wnvm it then upd_ent s0 (wsid it) (fun e0 => e_nvm e0 true) else s0 in
  K s2 /\ (forall i, get_ent s2 i = if i =? wsid it then Some (nvm_ent it e) else get_ent s0 i) /\
  pol s2 = pol s0 /\ smap s2 = smap s0 /\ queue s2 = queue s0 /\ scap s2 = scap s0 /\ nextid s2 = nextid s0 /\ whl s2 = whl s0 /\
  (forall n, (forall x, In x (ents s0) -> sid x < n) -> forall x, In x (ents s2) -> sid x < n).
Proof.
  intros HK Ge. cbv zeta. unfold nvm_ent. destruct (wnvm it).
  - split; [apply K_upd; [apply kid_nvm|exact HK]|]. split; [exact (upd_shape s0 (wsid it) (fun e0 => e_nvm e0 true) e ltac:(reflexivity) Ge)|]. repeat split.
    intros n H. apply ents_upd_bound; [reflexivity|exact H].
  - split; [exact HK|]. split; [intro i; destruct (Z.eqb_spec i (wsid it)) as [->|]; [exact Ge|reflexivity]|]. repeat split. auto.
Qed.

Lemma nvm_ent_fields it e : f_removed (nvm_ent it e) = f_removed e /\ f_deleted (nvm_ent it e) = f_deleted e /\
  spw (nvm_ent it e) = spw e /\ sweight (nvm_ent it e) = sweight e /\ sexpire (nvm_ent it e) = sexpire e /\
  skey (nvm_ent it e) = skey e /\ sid (nvm_ent it e) = sid e /\ shash (nvm_ent it e) = shash e.
Proof. unfold nvm_ent. destruct (wnvm it); repeat split. Qed.

Lemma PInv_with_sk p sk : PInv p -> PInv (with_sk p sk).
Proof. intros (HC & Hle). split; [apply core_with_sk, HC|exact Hle]. Qed.

(* resident entries are not flagged deleted *)
Lemma resident_not_deleted s id e : K s -> get_ent s id = Some e -> f_deleted e = true -> resb s id = false.
Proof.
  intros (_ & _ & _ & k3 & _) Ge Fd. apply resb_false. intros k Hi. destruct (k3 k id Hi) as (_ & e' & G' & _ & D' & _). congruence.
Qed.

Lemma lookup_none_untracked p i : Core p -> ~ ptracked p i -> lookup p i = None.
Proof. intros HC H. destruct (lookup p i) as [x|] eqn:L; [|reflexivity]. exfalso. apply H. apply ptracked_lookup; [exact HC|eauto]. Qed.

(* ---------- NEW ---------- *)
Lemma sink_NEW_Acc t s a it b now a0 rnd : Acc t s -> queue s = a ++ it :: b -> t <= now -> wcode it = cNEW ->
  cost_ok s it -> - two63 < a0 < two63 ->
  Acc now (fst (sinkWrite (set_queue s (a ++ b)) it now a0 rnd)).
Proof.
  intros HA Eq Ht Cn Hcost Ha. pose proof HA as (HK & HP & Hc & He & Hq & Hv).
  destruct (dequeue_facts t s a it b HA Eq) as (K0 & Pre & P0 & C0 & E0). set (s0 := set_queue s (a ++ b)) in *.
  set (id := wsid it) in *.
  assert (Nr : is_rem it = false) by (unfold is_rem; rewrite Cn; reflexivity).
  assert (Inw : is_new it = true) by (unfold is_new; rewrite Cn; reflexivity).
  assert (Ic : is_cost it = true) by (unfold is_cost; rewrite Cn; reflexivity).
  destruct (item_counts a it b) as (I1 & I2 & I3). fold id in I1, I2, I3. rewrite Inw in I1. rewrite Ic in I2. rewrite Nr, orb_false_r in I3.
  pose proof (Hv id) as Vid. unfold view_good in Vid. rewrite Eq in Vid. destruct Vid as (va & vb & vc & vd & vf).
  assert (N0 : n_new (a ++ b) id = 0%nat) by lia.
  assert (L0 : lookup (pol s) id = None).
  { destruct (lookup (pol s) id) as [x|] eqn:L; [|reflexivity]. destruct (vc x eq_refl) as (_ & _ & _ & _ & _ & X & _). lia. }
  destruct (vd ltac:(lia)) as (_ & e & Ge & D).
  assert (G0 : get_ent s0 id = Some e) by exact Ge.
  destruct (sinkWrite_K s0 it now a0 rnd K0 Pre) as (K' & N' & Q' & _).
  pose proof (sinkWrite_ext s0 it now a0 rnd) as (_ & _ & _ & _ & EI & _ & SC' & _).
  assert (EB : forall x, In x (ents (fst (sinkWrite s0 it now a0 rnd))) -> sid x < nextid (fst (sinkWrite s0 it now a0 rnd))).
  { intros x Hx. destruct (EI x Hx) as (x0 & Hx0 & Sx & _). rewrite N', <- Sx. apply He, Hx0. }
  revert K' N' Q' EB SC'. unfold sinkWrite. fold id. rewrite G0.
  destruct (f_deleted e) eqn:Fd.
  { (* the entry was deleted and notified already: the event is dropped *)
    intros K' N' Q' EB SC'. cbn [fst] in *.
    apply (sink_frame t now s a it b s0); [exact HA|exact Eq|exact Ht|exact K0|exact HP|exact Hc|reflexivity|reflexivity|exact He|reflexivity| |].
    - intros i _. repeat split.
    - fold id. unfold view_good. rewrite G0. change (queue s0) with (a ++ b). change (pol s0) with (pol s). rewrite L0, N0.
      rewrite (resident_not_deleted s0 id e K0 G0 Fd).
      split; [lia|]. split; [discriminate|]. split; [discriminate|]. split; [intro X; lia|discriminate]. }
  rewrite Cn. change (cNEW =? cREMOVE) with false. change (cNEW =? cNEW) with true. cbn [negb andb]. rewrite andb_false_r. cbn [andb].
  destruct (s2_shape s0 it e K0 G0) as (K2 & G2 & P2 & M2 & Q2 & C2 & N2 & W2 & B2). fold id in K2, G2, P2, M2, Q2, C2, N2, W2, B2.
  set (s2 := if wnvm it then upd_ent s0 id (fun e0 => e_nvm e0 true) else s0) in *.
  destruct (nvm_ent_fields it e) as (n1 & n2 & n3 & n4 & n5 & n6 & n7 & n8). set (e2 := nvm_ent it e) in *.
  assert (G2id : get_ent s2 id = Some e2) by (rewrite G2, Z.eqb_refl; reflexivity).
  set (s3 := upd_ent s2 id (fun e0 => e_removed e0 false)).
  assert (K3 : K s3) by (apply K_upd; [apply kid_removed|exact K2]).
  pose proof (upd_shape s2 id (fun e0 => e_removed e0 false) e2 ltac:(reflexivity) G2id) as G3. fold s3 in G3.
  set (e3 := e_removed e2 false) in *.
  assert (G3id : get_ent s3 id = Some e3) by (rewrite G3, Z.eqb_refl; reflexivity).
  assert (Oth : forall i, i <> id -> get_ent s3 i = get_ent s i).
  { intros i Ni. rewrite G3. destruct (Z.eqb_spec i id); [contradiction|]. rewrite G2. destruct (Z.eqb_spec i id); [contradiction|reflexivity]. }
  assert (B3 : forall x, In x (ents s3) -> sid x < nextid s) by (apply ents_upd_bound; [reflexivity|]; apply B2; exact He).
  destruct (negb (sexpire e =? 0) && (sexpire e <=? now)) eqn:Exp.
  { (* already expired when the insert event arrives *)
    intros K' N' Q' EB SC'.
    assert (Fi : fires reasonEXPIRED now e3).
    { right. split; [reflexivity|]. change (sexpire e3) with (sexpire e2). rewrite n5. apply andb_true_iff in Exp. destruct Exp as (X1 & X2).
      destruct (Z.eqb_spec (sexpire e) 0); [discriminate|]. split; [assumption|lia]. }
    destruct (removeEntry_shape s3 id reasonEXPIRED now e3 K3 G3id Fi) as (G & P & Q & C & N & R1 & R2).
    assert (P3 : PInv (pol s3)) by (change (pol s3) with (pol s2); rewrite P2; exact HP).
    destruct (pol_after_remove s3 id P3) as (P1 & P2' & P3' & P4). rewrite <- P in *.
    apply (sink_frame t now s a it b); [exact HA|exact Eq|exact Ht|exact K'|exact P1
      |rewrite C, P2'; change (pol s3) with (pol s2); change (scap s3) with (scap s2); rewrite P2, C2; exact Hc
      |rewrite C; change (scap s3) with (scap s2); rewrite C2; reflexivity
      |rewrite N; change (nextid s3) with (nextid s2); rewrite N2; reflexivity|exact EB
      |rewrite Q; change (queue s3) with (queue s2); rewrite Q2; reflexivity| |].
    - intros i Ni. fold id in Ni. split; [rewrite G; destruct (Z.eqb_spec i id); [contradiction|apply Oth, Ni]|].
      split; [rewrite (R2 i Ni); unfold resb; change (smap s3) with (smap s2); rewrite M2; reflexivity|].
      rewrite (P4 i Ni). change (pol s3) with (pol s2). rewrite P2. reflexivity.
    - fold id. unfold view_good. rewrite G, Z.eqb_refl, R1, P3', Q. change (queue s3) with (queue s2). rewrite Q2. change (queue s0) with (a ++ b). rewrite N0.
      split; [lia|]. split; [discriminate|]. split; [discriminate|]. split; [intro X; lia|discriminate]. }
  (* inserted into the policy *)
  set (s4 := if negb (sexpire e =? 0) then set_whl s3 (schedule (whl s3) id (sexpire e)) else s3).
  assert (S4 : K s4 /\ (forall i, get_ent s4 i = get_ent s3 i) /\ pol s4 = pol s /\ smap s4 = smap s /\ queue s4 = a ++ b /\ scap s4 = scap s /\ nextid s4 = nextid s /\ ents s4 = ents s3).
  { unfold s4. destruct (negb (sexpire e =? 0)); (split; [exact K3|]; split; [intro i; reflexivity|]; split; [exact P2|]; split; [exact M2|]; split; [exact Q2|]; split; [exact C2|]; split; [exact N2|reflexivity]). }
  destruct S4 as (K4 & G4 & P4 & M4 & Q4 & C4 & N4 & E4).
  set (sk' := fst (add (psk (pol s4)) (whash it))).
  set (s5 := set_pol s4 (with_sk (pol s4) sk')).
  assert (Wr : s64 (spw e + wcost it) = spw e + wcost it) by (apply s64_small; apply (Hcost e Ge Ic)).
  assert (Wb : 1 <= spw e + wcost it <= scap s) by (apply (Hcost e Ge Ic); left; exact Inw).
  rewrite Wr. set (w := spw e + wcost it) in *.
  set (s6 := upd_ent s5 id (fun e0 => e_pw e0 w)).
  assert (K6 : K s6) by (apply K_upd; [apply kid_pw|exact K4]).
  assert (G5id : get_ent s5 id = Some e3) by (change (get_ent s5 id) with (get_ent s4 id); rewrite G4; exact G3id).
  pose proof (upd_shape s5 id (fun e0 => e_pw e0 w) e3 ltac:(reflexivity) G5id) as G6. fold s6 in G6.
  set (e6 := e_pw e3 w) in *.
  assert (P6 : pol s6 = with_sk (pol s) sk') by (unfold s6, s5; cbn [upd_ent set_ents set_pol pol]; rewrite P4; reflexivity).
  assert (PI6 : PInv (pol s6)) by (rewrite P6; apply PInv_with_sk, HP).
  assert (Untr : ~ ptracked (pol s6) (pid (mkP id w (shash e)))).
  { cbn [pid]. intro T. apply (ptracked_lookup _ _ (proj1 PI6)) in T. destruct T as (x & L). rewrite P6 in L. change (lookup (with_sk (pol s) sk') id) with (lookup (pol s) id) in L. congruence. }
  assert (Wp : 1 <= pw (mkP id w (shash e)) <= pcap (pol s6)) by (cbn [pw]; rewrite P6; cbn [with_sk pcap]; rewrite Hc; exact Wb).
  destruct (pset_w (pol s6) (mkP id w (shash e)) a0 rnd PI6 Untr Wp Ha) as (PI' & Pc' & Lk & Ev1 & Ev2 & Ev3 & EvN).
  destruct (pset (pol s6) (mkP id w (shash e)) a0 rnd) as [p' ev] eqn:Ep. cbn [fst snd pid] in *.
  intros K' N' Q' EB SC'.
  set (sm := set_pol s6 p').
  assert (AX : AccX ev now sm).
  { apply (sink_frame_ev t now s a it b sm ev); [exact HA|exact Eq|exact Ht|exact K6|exact PI'| | | | | | |].
    - change (pcap (pol sm)) with (pcap p'). rewrite Pc', P6. cbn [with_sk pcap]. rewrite Hc. unfold sm, s6, s5. cbn. rewrite C4. reflexivity.
    - unfold sm, s6, s5. cbn. exact C4.
    - unfold sm, s6, s5. cbn. exact N4.
    - unfold sm. change (ents (set_pol s6 p')) with (ents s6). change (nextid (set_pol s6 p')) with (nextid s4). rewrite N4.
      apply ents_upd_bound; [reflexivity|]. change (ents s5) with (ents s4). rewrite E4. exact B3.
    - unfold sm, s6, s5. cbn. exact Q4.
    - intros i Ni. fold id in Ni.
      assert (Gi : get_ent sm i = get_ent s i).
      { change (get_ent sm i) with (get_ent s6 i). rewrite G6. destruct (Z.eqb_spec i id); [contradiction|]. change (get_ent s5 i) with (get_ent s4 i). rewrite G4. apply Oth, Ni. }
      split; [exact Gi|]. split; [unfold resb, sm, s6, s5; cbn; rewrite M4; reflexivity|]. split.
      + intro Hin. split; [apply lookup_none_untracked; [apply PI'|apply Ev1, Hin]|].
        destruct (Ev2 i Hin) as [E|T]; [contradiction|]. apply (ptracked_lookup _ _ (proj1 PI6)) in T. destruct T as (x & L). exists x. rewrite P6 in L. exact L.
      + intro Hout. apply opt_eq_iff. intro x. change (lookup (pol sm) i) with (lookup p' i). split; intro L.
        * destruct (Lk i x L) as [(_ & E)|(_ & L6)]; [contradiction|]. rewrite P6 in L6. exact L6.
        * assert (T : ptracked (pol s6) i) by (apply ptracked_lookup; [apply PI6|]; exists x; rewrite P6; exact L).
          destruct (Ev3 i (or_intror T)) as [Hin|T']; [contradiction|].
          apply (ptracked_lookup _ _ (proj1 PI')) in T'. destruct T' as (x' & L'). destruct (Lk i x' L') as [(_ & E)|(_ & L6)]; [contradiction|].
          rewrite P6 in L6. change (lookup (with_sk (pol s) sk') i) with (lookup (pol s) i) in L6. congruence.
    - fold id. unfold view_good. change (get_ent sm id) with (get_ent s6 id). rewrite G6, Z.eqb_refl.
      change (queue sm) with (queue s4). rewrite Q4, N0. change (pol sm) with p'.
      assert (Rs : resb sm id = resb s id) by (unfold resb, sm, s6, s5; cbn; rewrite M4; reflexivity). rewrite Rs.
      change (scap sm) with (scap s4). rewrite C4.
      assert (F6 : f_removed e6 = false /\ f_deleted e6 = false /\ spw e6 = w /\ sweight e6 = sweight e /\ sexpire e6 = sexpire e).
      { unfold e6, e3. cbn [e_pw e_removed f_removed f_deleted spw sweight sexpire]. rewrite n2, n4, n5. repeat split. exact Fd. }
      destruct F6 as (f1 & f2 & f3 & f4 & f5).
      assert (Sum : resb s id = true -> spw e6 + pend (a ++ b) id = sweight e6 /\ 1 <= sweight e6 <= scap s).
      { intro R. destruct (vb R) as (e0 & Ee0 & _ & b2 & b3 & _). rewrite Ge in Ee0. inversion Ee0. subst e0. rewrite f3, f4. unfold w. lia. }
      destruct (in_dec Z.eq_dec id ev) as [Hin|Hout].
      + rewrite (inl_true ev id Hin). assert (Lp : lookup p' id = None) by (apply lookup_none_untracked; [apply PI'|apply Ev1, Hin]). rewrite Lp.
        split; [lia|]. split; [|split; [discriminate|split; [intro X; lia|auto]]].
        intro R. exists e6. destruct (Sum R) as (S1 & S2). split; [reflexivity|]. split; [exact f1|]. split; [exact S1|]. split; [exact S2|]. right. right. repeat split; auto.
      + rewrite (inl_false ev id Hout).
        assert (T' : ptracked p' id) by (destruct (Ev3 id (or_introl eq_refl)) as [X|X]; [contradiction|exact X]).
        apply (ptracked_lookup _ _ (proj1 PI')) in T'. destruct T' as (x' & L'). rewrite L'.
        assert (x' = mkP id w (shash e)) by (destruct (Lk id x' L') as [(E & _)|(E & _)]; [exact E|contradiction]). subst x'.
        split; [lia|]. split; [|split; [|split; [intro X; lia|discriminate]]].
        * intro R. exists e6. destruct (Sum R) as (S1 & S2). split; [reflexivity|]. split; [exact f1|]. split; [exact S1|]. split; [exact S2|]. right. left. split; [reflexivity|discriminate].
        * intros x X. inversion X. subst x. split; [reflexivity|]. exists e6. split; [reflexivity|]. split; [exact f1|]. split; [exact f2|]. split; [reflexivity|]. split; [cbn [pw]; symmetry; exact f3|].
          destruct D as [D|[D|[D|(D1 & D2 & D3)]]]; [congruence|right; rewrite <- I3; exact D|left; exact D|].
          exfalso. apply andb_false_iff in Exp. destruct Exp as [X1|X1].
          -- destruct (Z.eqb_spec (sexpire e) 0); [contradiction|discriminate].
          -- destruct (Z.leb_spec (sexpire e) now); [discriminate|lia]. }
  apply (remove_all_evict_Acc ev now sm now [] AX EvN).
Qed.

(* ---------- UPDATE ---------- *)
Lemma sink_UPDATE_Acc t s a it b now a0 rnd : Acc t s -> queue s = a ++ it :: b -> t <= now -> wcode it = cUPDATE ->
  cost_ok s it ->
  Acc now (fst (sinkWrite (set_queue s (a ++ b)) it now a0 rnd)).
Proof.
  intros HA Eq Ht Cu Hcost. pose proof HA as (HK & HP & Hc & He & Hq & Hv).
  destruct (dequeue_facts t s a it b HA Eq) as (K0 & Pre & P0 & C0 & E0). set (s0 := set_queue s (a ++ b)) in *.
  set (id := wsid it) in *.
  assert (Nr : is_rem it = false) by (unfold is_rem; rewrite Cu; reflexivity).
  assert (Inw : is_new it = false) by (unfold is_new; rewrite Cu; reflexivity).
  assert (Ic : is_cost it = true) by (unfold is_cost; rewrite Cu; reflexivity).
  destruct (item_counts a it b) as (I1 & I2 & I3). fold id in I1, I2, I3. rewrite Inw, Nat.add_0_r in I1. rewrite Ic in I2. rewrite Nr, orb_false_r in I3.
  pose proof (Hv id) as Vid. unfold view_good in Vid. rewrite Eq, I1, I2, I3 in Vid. destruct Vid as (va & vb & vc & vd & vf).
  destruct (sinkWrite_K s0 it now a0 rnd K0 Pre) as (K' & N' & Q' & _).
  pose proof (sinkWrite_ext s0 it now a0 rnd) as (_ & _ & _ & _ & EI & _ & SC' & _).
  assert (EB : forall x, In x (ents (fst (sinkWrite s0 it now a0 rnd))) -> sid x < nextid (fst (sinkWrite s0 it now a0 rnd))).
  { intros x Hx. destruct (EI x Hx) as (x0 & Hx0 & Sx & _). rewrite N', <- Sx. apply He, Hx0. }
  revert K' N' Q' EB SC'. unfold sinkWrite. fold id.
  destruct (get_ent s0 id) as [e|] eqn:G0.
  2:{ intros K' N' Q' EB SC'. cbn [fst] in *.
      apply (sink_frame t now s a it b s0); [exact HA|exact Eq|exact Ht|exact K0|exact HP|exact Hc|reflexivity|reflexivity|exact He|reflexivity| |].
      - intros i _. repeat split.
      - fold id. unfold view_good. rewrite G0. change (queue s0) with (a ++ b). change (pol s0) with (pol s). change (get_ent s id) with (get_ent s0 id) in *. rewrite G0 in *.
        assert (R : resb s0 id = false) by (destruct (resb s id) eqn:R; [destruct (vb eq_refl) as (e0 & X & _); discriminate|exact R]).
        assert (L : lookup (pol s) id = None) by (destruct (lookup (pol s) id) as [x|]; [destruct (vc x eq_refl) as (_ & e0 & X & _); discriminate|reflexivity]).
        rewrite R, L. split; [exact va|]. split; [discriminate|]. split; [discriminate|]. split; [|discriminate].
        intro X. destruct (vd X) as (_ & e0 & Y & _). discriminate. }
  assert (Ge : get_ent s id = Some e) by exact G0. rewrite Ge in *.
  destruct (f_deleted e) eqn:Fd.
  { intros K' N' Q' EB SC'. cbn [fst] in *.
    apply (sink_frame t now s a it b s0); [exact HA|exact Eq|exact Ht|exact K0|exact HP|exact Hc|reflexivity|reflexivity|exact He|reflexivity| |].
    - intros i _. repeat split.
    - fold id. unfold view_good. rewrite G0. change (queue s0) with (a ++ b). change (pol s0) with (pol s).
      rewrite (resident_not_deleted s0 id e K0 G0 Fd).
      assert (L : lookup (pol s) id = None) by (destruct (lookup (pol s) id) as [x|]; [destruct (vc x eq_refl) as (_ & e0 & X & _ & Y & _); inversion X; subst; congruence|reflexivity]).
      rewrite L. split; [exact va|]. split; [discriminate|]. split; [discriminate|]. split; [|discriminate].
      intro X. destruct (vd X) as (_ & e0 & Y & D). split; [reflexivity|]. exists e0. split; [exact Y|].
      destruct D as [D|[D|[D|(D1 & D2 & D3)]]]; [auto|auto| |right; right; right; repeat split; auto; lia].
      exfalso. change (resb s id) with (resb s0 id) in D. rewrite (resident_not_deleted s0 id e K0 G0 Fd) in D. discriminate. }
  rewrite Cu. change (cUPDATE =? cREMOVE) with false. change (cUPDATE =? cNEW) with false. change (cUPDATE =? cUPDATE) with true. cbn [negb andb]. rewrite !andb_true_r.
  destruct (s2_shape s0 it e K0 G0) as (K2 & G2 & P2 & M2 & Q2 & C2 & N2 & W2 & B2). fold id in K2, G2, P2, M2, Q2, C2, N2, W2, B2.
  set (s2 := if wnvm it then upd_ent s0 id (fun e0 => e_nvm e0 true) else s0) in *.
  destruct (nvm_ent_fields it e) as (n1 & n2 & n3 & n4 & n5 & n6 & n7 & n8). set (e2 := nvm_ent it e) in *.
  assert (G2id : get_ent s2 id = Some e2) by (rewrite G2, Z.eqb_refl; reflexivity).
  assert (Oth2 : forall i, i <> id -> get_ent s2 i = get_ent s i) by (intros i Ni; rewrite G2; destruct (Z.eqb_spec i id); [contradiction|reflexivity]).
  assert (B2' : forall x, In x (ents s2) -> sid x < nextid s) by (apply B2; exact He).
  destruct (f_removed e) eqn:Fr.
  { (* the entry has left the policy: the event is dropped *)
    intros K' N' Q' EB SC'. cbn [fst] in *.
    apply (sink_frame t now s a it b s2); [exact HA|exact Eq|exact Ht|exact K2|rewrite P2; exact HP|rewrite P2, C2; exact Hc|exact C2|exact N2|exact EB|exact Q2| |].
    - intros i Ni. fold id in Ni. split; [apply Oth2, Ni|]. split; [unfold resb; rewrite M2; reflexivity|rewrite P2; reflexivity].
    - fold id. unfold view_good. rewrite G2id, Q2, P2, C2. change (queue s0) with (a ++ b). change (pol s0) with (pol s). change (scap s0) with (scap s).
      assert (R : resb s2 id = false).
      { unfold resb. rewrite M2. change (existsb (fun kv => snd kv =? id) (smap s0)) with (resb s id).
        destruct (resb s id) eqn:R; [destruct (vb eq_refl) as (e0 & X & Y & _); inversion X; subst; congruence|reflexivity]. }
      assert (L : lookup (pol s) id = None) by (destruct (lookup (pol s) id) as [x|]; [destruct (vc x eq_refl) as (_ & e0 & X & Y & _); inversion X; subst; congruence|reflexivity]).
      rewrite R, L. split; [exact va|]. split; [discriminate|]. split; [discriminate|]. split; [|discriminate].
      intro X. destruct (vd X) as (_ & e0 & Y & D). inversion Y. subst e0. split; [reflexivity|]. exists e2. split; [reflexivity|].
      rewrite n1, n2, n5. destruct D as [D|[D|[D|(D1 & D2 & D3)]]]; [auto|auto| |right; right; right; repeat split; auto; lia]. exfalso.
      assert (resb s id = false) by (destruct (resb s id) eqn:R'; [destruct (vb eq_refl) as (e0 & X' & Y' & _); inversion X'; subst; congruence|reflexivity]). congruence. }
  cbn [andb].
  destruct (wresched it && negb (sexpire e =? 0) && (sexpire e <=? now)) eqn:Exp.
  { (* the new deadline has already passed *)
    intros K' N' Q' EB SC'.
    assert (Fi : fires reasonEXPIRED now e2).
    { right. split; [reflexivity|]. rewrite n5. apply andb_true_iff in Exp. destruct Exp as (X1 & X2). apply andb_true_iff in X1. destruct X1 as (_ & X1).
      destruct (Z.eqb_spec (sexpire e) 0); [discriminate|]. split; [assumption|lia]. }
    destruct (removeEntry_shape s2 id reasonEXPIRED now e2 K2 G2id Fi) as (G & P & Q & C & N & R1 & R2).
    assert (P3 : PInv (pol s2)) by (rewrite P2; exact HP).
    destruct (pol_after_remove s2 id P3) as (P1 & P2' & P3' & P4). rewrite <- P in *.
    apply (sink_frame t now s a it b); [exact HA|exact Eq|exact Ht|exact K'|exact P1
      |rewrite C, P2', P2, C2; exact Hc|rewrite C, C2; reflexivity|rewrite N, N2; reflexivity|exact EB|rewrite Q, Q2; reflexivity| |].
    - intros i Ni. fold id in Ni. split; [rewrite G; destruct (Z.eqb_spec i id); [contradiction|apply Oth2, Ni]|].
      split; [rewrite (R2 i Ni); unfold resb; rewrite M2; reflexivity|rewrite (P4 i Ni), P2; reflexivity].
    - fold id. unfold view_good. rewrite G, Z.eqb_refl, R1, P3', Q, Q2. change (queue s0) with (a ++ b).
      split; [exact va|]. split; [discriminate|]. split; [discriminate|]. split; [|discriminate].
      intro X. destruct (vd X) as (_ & e0 & Y & D). inversion Y. subst e0. split; [reflexivity|]. exists (e_removed e2 true). split; [reflexivity|].
      cbn [e_removed f_deleted f_removed sexpire]. rewrite n2, n5.
      destruct Fi as [Fi|(_ & F1 & F2)]; [discriminate|]. rewrite n5 in F1, F2.
      destruct D as [D|[D|[D|(D1 & D2 & D3)]]]; auto; right; right; right; repeat split; auto. }
  (* the cost change is applied *)
  set (s2' := if wresched it && (sexpire e =? 0) && scheduled (whl s2) id then set_whl s2 (deschedule (whl s2) id) else s2).
  set (s2n := upd_ent s2' id (fun e0 => e_nvm e0 false)).
  assert (Wr : s64 (spw e + wcost it) = spw e + wcost it) by (apply s64_small; apply (Hcost e Ge Ic)).
  rewrite Wr. set (w := spw e + wcost it) in *.
  set (s3 := upd_ent s2n id (fun e0 => e_pw e0 w)).
  set (s4 := if wresched it && negb (sexpire e =? 0) then set_whl s3 (schedule (whl s3) id (sexpire e)) else s3).
  set (e4 := e_pw (e_nvm e2 false) w).
  assert (S4 : K s4 /\ (forall i, get_ent s4 i = if i =? id then Some e4 else get_ent s i) /\ pol s4 = pol s /\ smap s4 = smap s /\
               queue s4 = a ++ b /\ scap s4 = scap s /\ nextid s4 = nextid s /\ (forall x, In x (ents s4) -> sid x < nextid s)).
  { assert (S2' : K s2' /\ (forall i, get_ent s2' i = get_ent s2 i) /\ pol s2' = pol s /\ smap s2' = smap s /\ queue s2' = a ++ b /\ scap s2' = scap s /\ nextid s2' = nextid s /\ ents s2' = ents s2).
    { unfold s2'. destruct (wresched it && (sexpire e =? 0) && scheduled (whl s2) id);
        (split; [exact K2|]; split; [intro i; reflexivity|]; split; [exact P2|]; split; [exact M2|]; split; [exact Q2|]; split; [exact C2|]; split; [exact N2|reflexivity]). }
    destruct S2' as (Ka & Ga & Pa & Ma & Qa & Ca & Na & Ea).
    assert (Gn : forall i, get_ent s2n i = if i =? id then Some (e_nvm e2 false) else get_ent s2' i).
    { apply (upd_shape s2' id (fun e0 => e_nvm e0 false) e2); [reflexivity|rewrite Ga; exact G2id]. }
    assert (G3 : forall i, get_ent s3 i = if i =? id then Some e4 else get_ent s2n i).
    { apply (upd_shape s2n id (fun e0 => e_pw e0 w) (e_nvm e2 false)); [reflexivity|rewrite Gn, Z.eqb_refl; reflexivity]. }
    assert (K3 : K s3) by (apply K_upd; [apply kid_pw|apply K_upd; [apply kid_nvm|exact Ka]]).
    assert (B3 : forall x, In x (ents s3) -> sid x < nextid s).
    { apply ents_upd_bound; [reflexivity|]. apply ents_upd_bound; [reflexivity|]. rewrite Ea. exact B2'. }
    unfold s4. destruct (wresched it && negb (sexpire e =? 0));
      (split; [exact K3|]; split; [|split; [exact Pa|split; [exact Ma|split; [exact Qa|split; [exact Ca|split; [exact Na|exact B3]]]]]]);
      intro i; change (get_ent (set_whl s3 (schedule (whl s3) id (sexpire e))) i) with (get_ent s3 i); rewrite G3; (destruct (Z.eqb_spec i id) as [->|Ni]; [reflexivity|]);
      rewrite Gn; (destruct (Z.eqb_spec i id); [contradiction|]); rewrite Ga; apply Oth2, Ni. }
  destruct S4 as (K4 & G4 & P4 & M4 & Q4 & C4 & N4 & B4).
  assert (F4 : f_removed e4 = false /\ f_deleted e4 = false /\ spw e4 = w /\ sweight e4 = sweight e /\ sexpire e4 = sexpire e).
  { unfold e4. cbn [e_pw e_nvm f_removed f_deleted spw sweight sexpire]. rewrite n1, n2, n4, n5. auto. }
  destruct F4 as (f1 & f2 & f3 & f4 & f5).
  assert (Sum : resb s id = true -> spw e4 + pend (a ++ b) id = sweight e4 /\ 1 <= sweight e4 <= scap s).
  { intro R. destruct (vb R) as (e0 & Ee0 & _ & b2 & b3 & _). inversion Ee0. subst e0. rewrite f3, f4. unfold w. lia. }
  assert (Rs : resb s4 id = resb s id) by (unfold resb; rewrite M4; reflexivity).
  assert (D4 : (1 <= n_new (a ++ b) id)%nat -> inl [] id = false /\ exists e0, Some e4 = Some e0 /\
             (f_deleted e0 = true \/ remb (a ++ b) id = true \/ resb s id = true \/ f_removed e0 = true /\ sexpire e0 <> 0 /\ sexpire e0 <= now)).
  { intro X. destruct (vd X) as (_ & e0 & Y & D). inversion Y. subst e0. split; [reflexivity|]. exists e4. split; [reflexivity|]. rewrite f1, f2, f5.
    destruct D as [D|[D|[D|(D1 & _)]]]; auto; congruence. }
  assert (TrackedCase : tracked s4 id = tracked s id) by (unfold tracked; rewrite P4; reflexivity).
  rewrite TrackedCase.
  destruct (tracked s id) eqn:Tr; cbn [negb].
  2:{ (* not yet in the policy: only the entry's policy-side cost moves *)
    intros K' N' Q' EB SC'. cbn [fst] in *.
    assert (L : lookup (pol s) id = None) by (apply tracked_false_lookup; [apply HP|exact Tr]).
    apply (sink_frame t now s a it b s4); [exact HA|exact Eq|exact Ht|exact K4|rewrite P4; exact HP|rewrite P4, C4; exact Hc|exact C4|exact N4|rewrite N4; exact B4|exact Q4| |].
    - intros i Ni. fold id in Ni. split; [rewrite G4; destruct (Z.eqb_spec i id); [contradiction|reflexivity]|]. split; [unfold resb; rewrite M4; reflexivity|rewrite P4; reflexivity].
    - fold id. unfold view_good. rewrite G4, Z.eqb_refl, Rs, P4, L, Q4, C4. rewrite L in *.
      split; [exact va|]. split; [|split; [discriminate|split; [exact D4|discriminate]]].
      intro R. destruct (Sum R) as (S1 & S2). exists e4. split; [reflexivity|]. split; [exact f1|]. split; [exact S1|]. split; [exact S2|].
      destruct (vb R) as (_ & _ & _ & _ & _ & Alt). exact Alt. }
  destruct (tracked_true_lookup s id ltac:(apply HP) Tr) as (x0 & L0). rewrite L0 in *.
  destruct (vc x0 eq_refl) as (_ & e0 & Ee0 & c1 & c2 & c3 & c4 & c5). inversion Ee0. subst e0.
  destruct (Z.eqb_spec (wcost it) 0) as [Z0|NZ].
  { (* a cost-neutral update *)
    intros K' N' Q' EB SC'. cbn [fst] in *.
    apply (sink_frame t now s a it b s4); [exact HA|exact Eq|exact Ht|exact K4|rewrite P4; exact HP|rewrite P4, C4; exact Hc|exact C4|exact N4|rewrite N4; exact B4|exact Q4| |].
    - intros i Ni. fold id in Ni. split; [rewrite G4; destruct (Z.eqb_spec i id); [contradiction|reflexivity]|]. split; [unfold resb; rewrite M4; reflexivity|rewrite P4; reflexivity].
    - fold id. unfold view_good. rewrite G4, Z.eqb_refl, Rs, P4, L0, Q4, C4.
      split; [exact va|]. split; [|split; [|split; [exact D4|discriminate]]].
      + intro R. destruct (Sum R) as (S1 & S2). exists e4. split; [reflexivity|]. split; [exact f1|]. split; [exact S1|]. split; [exact S2|].
        right. left. split; [exact c3|discriminate].
      + intros x X. inversion X. subst x. split; [reflexivity|]. exists e4. split; [reflexivity|]. split; [exact f1|]. split; [exact f2|]. split; [exact c3|].
        split; [rewrite f3; unfold w; lia|exact c5]. }
  (* the policy applies the delta and may evict *)
  assert (Wb : 1 <= pw x0 + wcost it <= pcap (pol s4)).
  { rewrite P4, Hc, c4. apply (Hcost e Ge Ic). right. exact Tr. }
  assert (PI4 : PInv (pol s4)) by (rewrite P4; exact HP).
  assert (L4 : lookup (pol s4) id = Some x0) by (rewrite P4; exact L0).
  destruct (pupdate_w (pol s4) id (wcost it) rnd x0 PI4 L4 Wb) as (PI' & Pc' & Lk & Ev1 & Ev2 & Ev3 & EvN).
  destruct (pupdate (pol s4) id (wcost it) rnd) as [p' ev] eqn:Ep. cbn [fst snd] in *.
  intros K' N' Q' EB SC'.
  set (sm := set_pol s4 p').
  assert (AX : AccX ev now sm).
  { apply (sink_frame_ev t now s a it b sm ev); [exact HA|exact Eq|exact Ht|exact K4|exact PI'| | | | | | |].
    - change (pcap (pol sm)) with (pcap p'). change (scap sm) with (scap s4). rewrite Pc', P4, C4. exact Hc.
    - exact C4.
    - exact N4.
    - change (ents sm) with (ents s4). change (nextid sm) with (nextid s4). rewrite N4. exact B4.
    - exact Q4.
    - intros i Ni. fold id in Ni.
      split; [change (get_ent sm i) with (get_ent s4 i); rewrite G4; destruct (Z.eqb_spec i id); [contradiction|reflexivity]|].
      split; [unfold resb; change (smap sm) with (smap s4); rewrite M4; reflexivity|]. split.
      + intro Hin. split; [apply lookup_none_untracked; [apply PI'|apply Ev1, Hin]|].
        pose proof (Ev2 i Hin) as T. apply (ptracked_lookup _ _ (proj1 PI4)) in T. destruct T as (x & L). exists x. rewrite P4 in L. exact L.
      + intro Hout. apply opt_eq_iff. intro x. change (lookup (pol sm) i) with (lookup p' i). split; intro L.
        * destruct (Lk i x L) as [(_ & L6)|(E & _)]; [|contradiction]. rewrite P4 in L6. exact L6.
        * assert (T : ptracked (pol s4) i) by (apply ptracked_lookup; [apply PI4|]; exists x; rewrite P4; exact L).
          destruct (Ev3 i T) as [Hin|T']; [contradiction|].
          apply (ptracked_lookup _ _ (proj1 PI')) in T'. destruct T' as (x' & L'). destruct (Lk i x' L') as [(_ & L6)|(E & _)]; [|contradiction].
          rewrite P4 in L6. congruence.
    - fold id. unfold view_good. change (get_ent sm id) with (get_ent s4 id). rewrite G4, Z.eqb_refl.
      change (queue sm) with (queue s4). rewrite Q4. change (pol sm) with p'. change (resb sm id) with (resb s4 id). rewrite Rs.
      change (scap sm) with (scap s4). rewrite C4. rewrite c3 in *.
      destruct (in_dec Z.eq_dec id ev) as [Hin|Hout].
      + rewrite (inl_true ev id Hin). assert (Lp : lookup p' id = None) by (apply lookup_none_untracked; [apply PI'|apply Ev1, Hin]). rewrite Lp.
        split; [lia|]. split; [|split; [discriminate|split; [intro X; lia|auto]]].
        intro R. exists e4. destruct (Sum R) as (S1 & S2). split; [reflexivity|]. split; [exact f1|]. split; [exact S1|]. split; [exact S2|]. right. right. repeat split; auto.
      + rewrite (inl_false ev id Hout).
        assert (T' : ptracked p' id).
        { assert (T : ptracked (pol s4) id) by (apply ptracked_lookup; [apply PI4|]; eauto). destruct (Ev3 id T) as [X|X]; [contradiction|exact X]. }
        apply (ptracked_lookup _ _ (proj1 PI')) in T'. destruct T' as (x' & L'). rewrite L'.
        assert (Px : pw x' = w) by (destruct (Lk id x' L') as [(E & _)|(_ & E)]; [contradiction|rewrite E, c4; reflexivity]).
        split; [lia|]. split; [|split; [|split; [intro X; lia|discriminate]]].
        * intro R. exists e4. destruct (Sum R) as (S1 & S2). split; [reflexivity|]. split; [exact f1|]. split; [exact S1|]. split; [exact S2|]. right. left. split; [reflexivity|discriminate].
        * intros x X. inversion X. subst x. split; [reflexivity|]. exists e4. split; [reflexivity|]. split; [exact f1|]. split; [exact f2|]. split; [reflexivity|].
          split; [rewrite Px, f3; reflexivity|exact c5]. }
  apply (remove_all_evict_Acc ev now sm now [] AX EvN).
Qed.

(* ---------- fields the invariant does not read ---------- *)
Lemma AccX_same ev t s s' : coreq s s' -> pol s' = pol s -> scap s' = scap s -> AccX ev t s -> AccX ev t s'.
Proof.
  intros Hc Hp Hs (HK & HP & Hcap & He & Hq & Hv). pose proof Hc as (a1 & a2 & a3 & a4 & a5 & a6).
  destruct (coreq_K s s' Hc HK) as (K' & _).
  split; [exact K'|]. split; [rewrite Hp; exact HP|]. split; [rewrite Hp, Hs; exact Hcap|]. split; [rewrite a4, a6; exact He|]. split; [rewrite a5, a6; exact Hq|].
  intro i. eapply view_same; [apply Z.le_refl|exact Hs|reflexivity|unfold get_ent; rewrite a4; reflexivity|unfold resb; rewrite a3; reflexivity|rewrite Hp; reflexivity|rewrite a5; reflexivity|rewrite a5; reflexivity|rewrite a5; reflexivity|apply Hv].
Qed.

Lemma Acc_weaken t t' s : t <= t' -> Acc t s -> Acc t' s.
Proof.
  intros Ht (HK & HP & Hc & He & Hq & Hv). split; [exact HK|]. split; [exact HP|]. split; [exact Hc|]. split; [exact He|]. split; [exact Hq|].
  intro i. eapply view_same; [exact Ht| | | | | | | | |apply Hv]; reflexivity.
Qed.

(* ---------- an event that is neither NEW, REMOVE nor UPDATE (a Wait marker delivered on its own) ---------- *)
Lemma sink_OTHER_Acc t s a it b now a0 rnd : Acc t s -> queue s = a ++ it :: b -> t <= now ->
  wcode it <> cNEW -> wcode it <> cREMOVE -> wcode it <> cUPDATE ->
  Acc now (fst (sinkWrite (set_queue s (a ++ b)) it now a0 rnd)).
Proof.
  intros HA Eq Ht C0 C1 C2. pose proof HA as (HK & HP & Hc & He & Hq & Hv).
  destruct (dequeue_facts t s a it b HA Eq) as (K0 & Pre & P0 & Cc0 & E0). set (s0 := set_queue s (a ++ b)) in *.
  set (id := wsid it) in *.
  assert (Nr : is_rem it = false) by (unfold is_rem; destruct (Z.eqb_spec (wcode it) cREMOVE); [contradiction|reflexivity]).
  assert (Inw : is_new it = false) by (unfold is_new; destruct (Z.eqb_spec (wcode it) cNEW); [contradiction|reflexivity]).
  assert (Ic : is_cost it = false) by (unfold is_cost; destruct (Z.eqb_spec (wcode it) cNEW); [contradiction|]; destruct (Z.eqb_spec (wcode it) cUPDATE); [contradiction|reflexivity]).
  destruct (item_counts a it b) as (I1 & I2 & I3). fold id in I1, I2, I3. rewrite Inw, Nat.add_0_r in I1. rewrite Ic, Z.add_0_r in I2. rewrite Nr, orb_false_r in I3.
  pose proof (Hv id) as Vid. unfold view_good in Vid. rewrite Eq, I1, I2, I3 in Vid.
  assert (S0 : Acc now s0).
  { apply (sink_frame t now s a it b s0); [exact HA|exact Eq|exact Ht|exact K0|exact HP|exact Hc|reflexivity|reflexivity|exact He|reflexivity| |].
    - intros i _. repeat split.
    - fold id. unfold view_good. change (queue s0) with (a ++ b). eapply Good_mono; [exact Ht|exact Vid]. }
  unfold sinkWrite. fold id. destruct (get_ent s0 id) as [e|] eqn:G0; [|exact S0].
  destruct (f_deleted e); [exact S0|].
  destruct (Z.eqb_spec (wcode it) cREMOVE); [contradiction|]. destruct (Z.eqb_spec (wcode it) cNEW); [contradiction|]. destruct (Z.eqb_spec (wcode it) cUPDATE); [contradiction|].
  cbn [negb andb]. rewrite !andb_true_r.
  assert (S2 : Acc now (if wnvm it then upd_ent s0 id (fun e0 => e_nvm e0 true) else s0)).
  { destruct (wnvm it); [|exact S0]. pose proof S0 as (K0' & P0' & C0' & E0' & Q0' & V0').
    split; [apply K_upd; [apply kid_nvm|exact K0']|]. split; [exact P0'|]. split; [exact C0'|].
    split; [apply ents_upd_bound; [reflexivity|exact E0']|]. split; [exact Q0'|].
    intro i. unfold view_good. cbn [upd_ent set_ents scap pol queue]. change (resb (set_ents s0 _) i) with (resb s0 i).
    rewrite get_ent_upd by reflexivity. pose proof (V0' i) as G. unfold view_good in G.
    destruct (get_ent s0 i) as [ei|] eqn:Gi; [|exact G].
    destruct (sid ei =? id); [|exact G]. apply (Good_map (fun x => e_nvm x true)) in G; [exact G|]. intro x. repeat split. }
  destruct (f_removed e); exact S2.
Qed.

(* ---------- the i-th queued event ---------- *)
Definition sink_ok (s : store) (i a0 : Z) : Prop :=
  - two63 < a0 < two63 /\ forall it, nth_error (queue s) (Z.to_nat i) = Some it -> cost_ok s it.

Lemma sink_nth_Acc t s i now a0 rnd : Acc t s -> t <= now -> sink_ok s i a0 ->
  Acc now (fst (sink_nth s i now a0 rnd)).
Proof.
  intros HA Ht (Ha & Hc). unfold sink_nth. destruct (nth_error (queue s) (Z.to_nat i)) as [it|] eqn:En.
  2:{ cbn [fst]. apply (Acc_weaken t); assumption. }
  pose proof (nth_error_split_at _ _ _ En) as Eq. specialize (Hc it eq_refl).
  set (a := firstn (Z.to_nat i) (queue s)) in *. set (b := skipn (S (Z.to_nat i)) (queue s)) in *.
  destruct (Z.eq_dec (wcode it) cNEW) as [C0|C0]; [apply (sink_NEW_Acc t); assumption|].
  destruct (Z.eq_dec (wcode it) cREMOVE) as [C1|C1]; [apply (sink_REMOVE_Acc t); assumption|].
  destruct (Z.eq_dec (wcode it) cUPDATE) as [C2|C2]; [apply (sink_UPDATE_Acc t); assumption|].
  apply (sink_OTHER_Acc t); assumption.
Qed.

(* ---------- tick and stale wheel visits ---------- *)
Lemma svisit_Acc now st we : Acc now (fst st) -> Acc now (fst (svisit now st we)).
Proof.
  intro HA. unfold svisit. destruct st as [s1 out]. cbn [fst] in *.
  destruct (get_ent s1 (eid we)) as [e|]; [|exact HA].
  destruct (sexpire e <=? wnanos (whl s1)).
  - assert (A1 : Acc now (set_whl s1 (deschedule (whl s1) (eid we)))) by (eapply AccX_same; [| | |exact HA]; repeat split).
    pose proof (removeEntry_expire_Acc now _ (eid we) now A1 (Z.le_refl _)) as A2.
    destruct (removeEntry _ _ _ _) as [s2 o]. exact A2.
  - cbn [fst]. eapply AccX_same; [| | |exact HA]; repeat split.
Qed.

Lemma tick_Acc t s now : Acc t s -> t <= now -> Acc now (fst (tick s now)).
Proof.
  intros HA Ht. unfold tick.
  apply (levels_pres (store * list Z) (fun st => whl (fst st)) (svisit now) (fun st => Acc now (fst st))).
  - intros st e H. apply svisit_Acc, H.
  - cbn [fst]. eapply AccX_same; [| | |apply (Acc_weaken t now s Ht HA)]; repeat split.
Qed.

Lemma stale_Acc t s k now : Acc t s -> t <= now -> Acc now (fst (st_step s [11; k; now])).
Proof.
  intros HA Ht. cbn [st_step]. destruct (map_get (smap s) k) as [id|]; [|cbn [fst]; apply (Acc_weaken t); assumption].
  apply (removeEntry_expire_Acc t); [|exact Ht]. eapply AccX_same; [| | |exact HA]; repeat split.
Qed.

(* ---------- the read path only rearranges the policy ---------- *)
Lemma access_Acc t s id h a0 : Acc t s -> - two63 < a0 < two63 -> Acc t (set_pol s (paccess (pol s) id h a0)).
Proof.
  intros (HK & HP & Hc & He & Hq & Hv) Ha. destruct (paccess_w (pol s) id h a0 HP Ha) as (P' & C' & L').
  split; [exact HK|]. split; [exact P'|]. split; [cbn [set_pol pol scap]; rewrite C'; exact Hc|]. split; [exact He|]. split; [exact Hq|].
  intro i. apply (view_same t t [] [] s (set_pol s (paccess (pol s) id h a0)) i); [apply Z.le_refl|reflexivity|reflexivity|reflexivity|reflexivity| |reflexivity|reflexivity|reflexivity|apply Hv].
  cbn [set_pol pol]. apply opt_eq_iff. intro x. apply L'.
Qed.

Lemma drain_loop_Acc t items : forall s a0, Acc t s -> - two63 < a0 < two63 -> Acc t (drain_loop items s a0).
Proof.
  induction items as [|[id h] r IH]; intros s a0 HA Ha; cbn [drain_loop]; [exact HA|].
  destruct (get_ent s id) as [e|]; [|apply IH; assumption]. destruct (f_removed e); [apply IH; assumption|].
  apply IH; [apply access_Acc; assumption|exact Ha].
Qed.

Lemma record_hit_Acc t s id h a0 : Acc t s -> - two63 < a0 < two63 -> Acc t (record_hit s id h a0).
Proof.
  intros HA Ha. unfold record_hit. destruct (_ =? 16).
  - apply drain_loop_Acc; [|exact Ha]. eapply AccX_same; [| | |exact HA]; repeat split.
  - eapply AccX_same; [| | |exact HA]; repeat split.
Qed.

(* ---------- API calls: one event is appended ---------- *)
Lemma append_other q it i : i <> wsid it ->
  n_new (q ++ [it]) i = n_new q i /\ pend (q ++ [it]) i = pend q i /\ remb (q ++ [it]) i = remb q i.
Proof.
  intro N. rewrite n_new_app, pend_app, remb_app, n_new_cons, pend_cons, remb_cons.
  destruct (Z.eqb_spec (wsid it) i) as [E|_]; [congruence|]. cbn [andb]. rewrite andb_false_r. cbn [orb n_new pend remb filter length fold_right rem_ids map existsb].
  repeat split; try lia. rewrite orb_false_r. reflexivity.
Qed.

Lemma append_counts q it :
  n_new (q ++ [it]) (wsid it) = (n_new q (wsid it) + (if is_new it then 1 else 0))%nat /\
  pend (q ++ [it]) (wsid it) = pend q (wsid it) + (if is_cost it then wcost it else 0) /\
  remb (q ++ [it]) (wsid it) = remb q (wsid it) || is_rem it.
Proof.
  rewrite n_new_app, pend_app, remb_app, n_new_cons, pend_cons, remb_cons, Z.eqb_refl. cbn [andb]. rewrite andb_true_r.
  cbn [n_new pend remb filter length fold_right rem_ids map existsb]. rewrite orb_false_r.
  split; [destruct (is_new it); lia|]. split; [destruct (is_cost it); lia|reflexivity].
Qed.

Lemma sdelete_Acc t s k h : Acc t s -> Acc t (sdelete s k h).
Proof.
  intros HA. pose proof HA as (HK & HP & Hc & He & Hq & Hv). destruct (sdelete_K s k h HK) as (K' & _).
  revert K'. unfold sdelete. pose proof HK as (k1 & k1' & k2 & k3 & k4 & k5). rewrite k1'.
  destruct (map_get (smap s) k) as [id|] eqn:Gm; [|intros _; exact HA]. intro K'.
  pose proof (map_get_in _ _ _ Gm) as Hin. destruct (k3 k id Hin) as (Lid & e & Ge & Ke & De & Ne).
  set (it := mkW cREMOVE id 0 false false h).
  destruct (resb_mapdel s k id HK Hin) as (R1 & R2).
  split; [exact K'|]. split; [exact HP|]. split; [exact Hc|]. split; [exact He|]. split.
  { intros x Hx. unfold send in Hx. cbn [set_queue queue set_smap] in Hx. apply in_app_or in Hx. destruct Hx as [Hx|[<-|[]]]; [apply Hq, Hx|left; exact Lid]. }
  intro i. unfold view_good, send. cbn [set_queue queue pol scap set_smap].
  change (get_ent (set_queue (set_smap s (map_del (smap s) k)) (queue s ++ [it])) i) with (get_ent s i).
  change (resb (set_queue (set_smap s (map_del (smap s) k)) (queue s ++ [it])) i) with (resb (set_smap s (map_del (smap s) k)) i).
  pose proof (Hv i) as G. unfold view_good in G.
  destruct (Z.eq_dec i id) as [->|Ni].
  - destruct (append_counts (queue s) it) as (A1 & A2 & A3). cbn [it wsid is_new is_cost is_rem wcode] in A1, A2, A3.
    change (cREMOVE =? cNEW) with false in *. change (cREMOVE =? cUPDATE) with false in *. change (cREMOVE =? cREMOVE) with true in A3. cbn [orb] in A2.
    rewrite A1, A2, A3, R1, Nat.add_0_r, Z.add_0_r, orb_true_r.
    destruct G as (a & b & c & d & f). split; [exact a|]. split; [discriminate|]. split; [|split; [|exact f]].
    + intros x X. destruct (c x X) as (c0 & e0 & c1 & c2 & c3 & c4 & c5 & _). split; [exact c0|]. exists e0. repeat split; auto.
    + intro X. destruct (d X) as (d0 & e0 & d1 & _). split; [exact d0|]. exists e0. split; [exact d1|]. right. left. reflexivity.
  - destruct (append_other (queue s) it i Ni) as (A1 & A2 & A3). rewrite A1, A2, A3, (R2 i Ni). exact G.
Qed.

Lemma get_ent_new_other s e i : sid e <> i -> get_ent (set_ents s (e :: ents s)) i = get_ent s i.
Proof. intro N. unfold get_ent. cbn [set_ents ents find]. destruct (Z.eqb_spec (sid e) i); [contradiction|reflexivity]. Qed.

Lemma set_section_Acc t s k v cost expire now h dk : Acc t s -> 1 <= cost <= scap s ->
  Acc t (fst (fst (set_section s k v cost expire now h dk false))).
Proof.
  intros HA Hcost. pose proof HA as (HK & HP & Hc & He & Hq & Hv).
  destruct (set_section_K s k v cost expire now h dk false HK) as (K' & _). revert K'.
  pose proof HK as (k1 & k1' & k2 & k3 & k4 & k5). unfold set_section. rewrite k1'.
  assert (Bc : scap s < big) by (rewrite <- Hc; destruct HP as ((_&_&_&_&_&_&X&_)&_); lia).
  destruct (map_get (smap s) k) as [id|] eqn:Gm.
  - (* overwrite of a resident entry: the cost delta travels as an UPDATE event *)
    pose proof (map_get_in _ _ _ Gm) as Hin. destruct (k3 k id Hin) as (Lid & e & Ge & Ke & De & Ne). rewrite Ge.
    destruct (updateExpire (sexpire e) expire now) as [ex rs]. cbn [fst]. unfold invalidate. cbn [upd_ent set_ents hyb]. rewrite k1. cbn [andb]. intro K'.
    set (f := fun e0 => e_dirty (e_weight (e_val (e_expire e0 ex) v) cost) (f_dirty e0 || negb false)).
    set (it := mkW cUPDATE id (s64 (cost - sweight e)) rs false h).
    assert (R : resb s id = true) by (apply resb_true; eauto).
    pose proof (Hv id) as Gid. unfold view_good in Gid. rewrite Ge, R in Gid. destruct Gid as (ga & gb & gc & gd & gf).
    destruct (gb eq_refl) as (e0 & Ee0 & b1 & b2 & b3 & b4). inversion Ee0. subst e0.
    assert (Dl : s64 (cost - sweight e) = cost - sweight e) by (apply s64_small; bigs; lia).
    split; [exact K'|]. split; [exact HP|]. split; [exact Hc|]. split; [apply (ents_upd_bound s id f); [reflexivity|exact He]|]. split.
    { intros x Hx. unfold send in Hx. cbn [set_queue queue] in Hx. apply in_app_or in Hx. destruct Hx as [Hx|[<-|[]]]; [apply Hq, Hx|left; exact Lid]. }
    intro i. unfold view_good, send. cbn [set_queue queue pol scap].
    change (get_ent (set_queue (upd_ent s id f) (queue (upd_ent s id f) ++ [it])) i) with (get_ent (upd_ent s id f) i).
    change (resb (set_queue (upd_ent s id f) (queue (upd_ent s id f) ++ [it])) i) with (resb s i).
    change (queue (upd_ent s id f)) with (queue s). change (pol (upd_ent s id f)) with (pol s). change (scap (upd_ent s id f)) with (scap s).
    destruct (Z.eq_dec i id) as [->|Ni].
    + rewrite (get_ent_upd_same s id f e ltac:(reflexivity) Ge), R.
      destruct (append_counts (queue s) it) as (A1 & A2 & A3).
      change (wsid it) with id in A1, A2, A3. change (is_new it) with false in A1. change (is_cost it) with true in A2. change (is_rem it) with false in A3.
      change (wcost it) with (s64 (cost - sweight e)) in A2.
      rewrite A1, A2, A3, Nat.add_0_r, orb_false_r, Dl.
      assert (Ff : f_removed (f e) = false /\ f_deleted (f e) = f_deleted e /\ spw (f e) = spw e /\ sweight (f e) = cost) by (unfold f; cbn; auto).
      destruct Ff as (f1 & f2 & f3 & f4).
      split; [exact ga|]. split; [|split; [|split; [|exact gf]]].
      * intros _. exists (f e). split; [reflexivity|]. split; [exact f1|]. split; [rewrite f3, f4; lia|]. split; [rewrite f4; exact Hcost|exact b4].
      * intros x X. destruct (gc x X) as (c0 & e0 & Ee0' & c1 & c2 & c3 & c4 & c5). inversion Ee0'. subst e0. split; [exact c0|]. exists (f e).
        split; [reflexivity|]. split; [exact f1|]. split; [rewrite f2; exact c2|]. split; [exact c3|]. split; [rewrite f3; exact c4|left; reflexivity].
      * intro X. destruct (gd X) as (d0 & _). split; [exact d0|]. exists (f e). split; [reflexivity|]. right. right. left. reflexivity.
    + rewrite (get_ent_upd_other s id f i ltac:(reflexivity) Ni). destruct (append_other (queue s) it i Ni) as (A1 & A2 & A3). rewrite A1, A2, A3. apply Hv.
  - (* a new entry object with a NEW event *)
    destruct dk; cbn [negb]; [|cbn [fst]; intros _; exact HA]. cbn [fst].
    unfold invalidate. cbn [set_nextid set_smap set_ents hyb]. rewrite k1. cbn [andb]. intro K'.
    set (id := nextid s). set (e := mkE id k v cost expire 0 h false false false false).
    set (it := mkW cNEW id cost false false h).
    destruct (fresh_view [] t s id HA (Z.le_refl _)) as (F1 & F2 & F3 & F4 & F5 & F6).
    assert (Ea : map_del (smap s) k = smap s) by (apply map_del_absent, Gm).
    split; [exact K'|]. split; [exact HP|]. split; [exact Hc|]. split.
    { intros x Hx. unfold send in *. cbn [set_queue set_nextid set_smap set_ents ents nextid] in *. destruct Hx as [<-|Hx]; [unfold e; cbn [sid]; lia|]. pose proof (He x Hx). unfold id. lia. }
    split.
    { intros x Hx. unfold send in *. cbn [set_queue set_nextid set_smap set_ents queue nextid] in *. apply in_app_or in Hx.
      destruct Hx as [Hx|[<-|[]]]; [destruct (Hq x Hx) as [L|L]; [left; unfold id; lia|right; exact L]|left; unfold it; cbn [wsid]; lia]. }
    intro i. unfold view_good, send. cbn [set_queue set_nextid set_smap set_ents queue pol scap].
    set (s' := set_queue (set_nextid (set_smap (set_ents s (e :: ents s)) (map_set (smap s) k id)) (id + 1)) (queue s ++ [it])).
    assert (Gi : get_ent s' i = if i =? id then Some e else get_ent s i).
    { unfold s', get_ent. cbn [set_queue set_nextid set_smap set_ents ents find sid e]. rewrite (Z.eqb_sym id i). destruct (i =? id); reflexivity. }
    assert (Ri : resb s' i = (i =? id) || resb s i).
    { unfold s', resb. cbn [set_queue set_nextid set_smap set_ents smap]. unfold map_set. rewrite Ea. cbn [existsb snd]. rewrite (Z.eqb_sym id i). reflexivity. }
    rewrite Gi, Ri.
    destruct (Z.eq_dec i id) as [->|Ni].
    + rewrite Z.eqb_refl. cbn [orb]. destruct (append_counts (queue s) it) as (A1 & A2 & A3).
      change (wsid it) with id in A1, A2, A3. change (is_new it) with true in A1. change (is_cost it) with true in A2. change (is_rem it) with false in A3.
      change (wcost it) with cost in A2.
      rewrite A1, A2, A3, F3, F4, F5, F6. cbn [orb Nat.add].
      split; [lia|]. split; [|split; [discriminate|split; [|discriminate]]].
      * intros _. exists e. cbn [e f_removed spw sweight]. repeat split; try lia. left. split; reflexivity.
      * intros _. split; [reflexivity|]. exists e. split; [reflexivity|]. right. right. left. reflexivity.
    + destruct (Z.eqb_spec i id); [contradiction|]. cbn [orb]. destruct (append_other (queue s) it i Ni) as (A1 & A2 & A3). rewrite A1, A2, A3. apply Hv.
Qed.

(* ---------- every operation ---------- *)
Definition next_t (t : Z) (o : sop) : Z :=
  match o with OSink _ now _ _ | OTick now | OStale _ now => now | _ => t end.

Definition acc_ok (t : Z) (s : store) (o : sop) : Prop :=
  match o with
  | OGet _ _ a0 => - two63 < a0 < two63
  | OSet _ _ cost _ _ _ _ => 0 <= cost
  | OSink i now a0 _ => t <= now /\ sink_ok s i a0
  | OTick now => t <= now
  | OStale _ now => t <= now
  | OLoad _ _ a0 _ _ _ cost _ _ => - two63 < a0 < two63 /\ 0 <= cost
  | OClose => False
  | _ => True
  end.

Lemma cost_adjust s cost : Acc 0 s \/ True -> PInv (pol s) -> pcap (pol s) = scap s -> 0 <= cost ->
  (s64 (scap s) <? (if cost =? 0 then 1 else cost)) = false -> 1 <= (if cost =? 0 then 1 else cost) <= scap s.
Proof.
  intros _ HP Hc H0 Hlt. assert (Bc : 1 <= scap s < big) by (rewrite <- Hc; destruct HP as ((_&_&_&_&_&_&X&_)&_); lia).
  rewrite s64_small in Hlt by (bigs; lia). destruct (Z.eqb_spec cost 0); lia.
Qed.

Lemma step_Acc t s o : Acc t s -> acc_ok t s o -> Acc (next_t t o) (fst (st_step s (enc o))).
Proof.
  intros HA Hok. pose proof HA as (HK & HP & Hc & He & Hq & Hv).
  destruct o; cbn [enc st_step next_t fst acc_ok] in *; try exact HA; try contradiction.
  - (* Get *) unfold sget. destruct (lookup_live s k now) as [e|]; cbn [fst].
    + apply record_hit_Acc; [|exact Hok]. eapply AccX_same; [| | |exact HA]; repeat split.
    + eapply AccX_same; [| | |exact HA]; repeat split.
  - (* Set *) unfold sset. destruct (sset3 s k v cost ttl now h (negb (dk =? 0))) as [[s' ok] st] eqn:E. cbn [fst].
    unfold sset3 in E. destruct (s64 (scap s) <? (if cost =? 0 then 1 else cost)) eqn:Lt.
    + inversion E. subst. exact HA.
    + pose proof (set_section_Acc t s k v _ (setExpire now ttl) now h (negb (dk =? 0)) HA (cost_adjust s cost (or_intror I) HP Hc Hok Lt)) as A.
      rewrite E in A. exact A.
  - (* Delete *) apply sdelete_Acc, HA.
  - (* Sink *) destruct Hok as (Ht & Hs). apply (sink_nth_Acc t); assumption.
  - (* Tick *) apply (tick_Acc t); assumption.
  - (* loading Get *) destruct Hok as (Ha & Hcost). unfold sload.
    destruct (sload3 s k now a0 h (negb (err =? 0)) v cost ttl (negb (dk =? 0))) as [[s' o] st] eqn:E. cbn [fst].
    unfold sload3 in E. destruct (lookup_live s k now) as [e|].
    + inversion E. subst. apply record_hit_Acc; [|exact Ha]. eapply AccX_same; [| | |exact HA]; repeat split.
    + set (s1 := set_counts s (hits s) (misses s + 1)) in *.
      assert (A1 : Acc t s1) by (eapply AccX_same; [| | |exact HA]; repeat split).
      destruct (sclosed s1); [inversion E; subst; exact A1|].
      destruct (negb (err =? 0)); [inversion E; subst; exact A1|].
      destruct (s64 (scap s1) <? (if cost =? 0 then 1 else cost)) eqn:Lt; [inversion E; subst; exact A1|].
      pose proof (set_section_Acc t s1 k v _ (setExpire now ttl) now h (negb (dk =? 0)) A1 (cost_adjust s1 cost (or_intror I) HP Hc Hcost Lt)) as A.
      destruct (set_section s1 k v _ _ now h _ false) as [[s2 ok] st2]. inversion E. subst. exact A.
  - (* Stale *) pose proof (stale_Acc t s k now HA Hok) as A. cbn [st_step] in A. exact A.
Qed.

(* ---------- histories ---------- *)
Fixpoint run_acc (t : Z) (s : store) (ops : list sop) : Z * store :=
  match ops with
  | [] => (t, s)
  | o :: r => run_acc (next_t t o) (fst (st_step s (enc o))) r
  end.
Fixpoint ok_hist (t : Z) (s : store) (ops : list sop) : Prop :=
  match ops with
  | [] => True
  | o :: r => acc_ok t s o /\ ok_hist (next_t t o) (fst (st_step s (enc o))) r
  end.

Lemma run_Acc ops : forall t s, Acc t s -> ok_hist t s ops -> Acc (fst (run_acc t s ops)) (snd (run_acc t s ops)).
Proof.
  induction ops as [|o r IH]; intros t s HA Hok; cbn [run_acc]; [exact HA|].
  destruct Hok as (Ho & Hr). apply IH; [apply step_Acc; assumption|exact Hr].
Qed.

Lemma Acc_init c wc pc now : 1 <= c < 2 ^ 61 -> 1 <= wc -> 0 <= pc -> wc + pc < 2 ^ 61 -> Acc now (newStore c wc pc now).
Proof.
  intros H1 H2 H3 H4. split; [apply K_init|]. split; [exact (L_init c wc pc H1 H2 H3 H4)|]. split; [reflexivity|].
  split; [intros e []|]. split; [intros it []|].
  intro i. unfold view_good, newStore, Good. cbn [get_ent ents find resb smap existsb queue n_new pend remb rem_ids filter map length fold_right pol scap].
  assert (L : lookup (newPolicy c wc pc) i = None) by reflexivity. rewrite L.
  split; [lia|]. split; [discriminate|]. split; [discriminate|]. split; [intro X; lia|discriminate].
Qed.

(* ---------- what the invariant means once the queue has drained ---------- *)
Definition cost_of (s : store) (id : Z) : Z := match get_ent s id with Some e => sweight e | None => 0 end.
Definition total_cost (s : store) : Z := fold_right (fun kv a => cost_of s (snd kv) + a) 0 (smap s).

Lemma nodup_res_ids s : K s -> NoDup (map snd (smap s)).
Proof.
  intros (_ & _ & k2 & k3 & _).
  assert (Key : forall k id, In (k, id) (smap s) -> exists e, get_ent s id = Some e /\ skey e = k) by (intros k id H; destruct (k3 k id H) as (_ & e & G & Ke & _); eauto).
  clear k3. induction (smap s) as [|[k id] m IH]; [constructor|]. cbn [map fst snd] in *. inversion k2 as [|? ? Hk Hd]; subst. constructor.
  - intro Hin. apply in_map_iff in Hin. destruct Hin as ([k' id'] & E & Hm). cbn in E. subst id'.
    destruct (Key k id (or_introl eq_refl)) as (e & G & Ke). destruct (Key k' id (or_intror Hm)) as (e' & G' & Ke'). rewrite G in G'. inversion G'. subst e'.
    apply Hk. apply in_map_iff. exists (k', id). split; [cbn; congruence|exact Hm].
  - apply IH; [exact Hd|]. intros k' id' H. apply Key. right. exact H.
Qed.

Definition wof (p : policy) (id : Z) : Z := match lookup p id with Some x => pw x | None => 0 end.

Lemma sumpw_wof p l : Core p -> (forall x, In x l -> In x (all_items p)) -> sumpw l = fold_right (fun id a => wof p id + a) 0 (ids_of l).
Proof.
  intros HC. induction l as [|x l IH]; intro H; [reflexivity|]. rewrite sumpw_cons. cbn [ids_of map fold_right]. fold (ids_of l).
  rewrite <- IH by (intros y Hy; apply H; right; exact Hy). unfold wof. rewrite (lookup_in p x HC (H x (or_introl eq_refl))). reflexivity.
Qed.

Lemma fold_perm (f : Z -> Z) (a b : list Z) : Permutation a b -> fold_right (fun id acc => f id + acc) 0 a = fold_right (fun id acc => f id + acc) 0 b.
Proof. intro P. induction P; cbn [fold_right]; lia. Qed.

Lemma drained t s : Acc t s -> queue s = [] ->
  (forall k id, In (k, id) (smap s) -> exists e x, get_ent s id = Some e /\ lookup (pol s) id = Some x /\ pw x = sweight e /\ 1 <= sweight e <= scap s) /\
  (forall id x, lookup (pol s) id = Some x -> resb s id = true) /\
  total_cost s = wsz (pol s) /\ wsz (pol s) <= scap s /\ sestimated s = wsz (pol s).
Proof.
  intros (HK & HP & Hc & He & Hq & Hv) Eq.
  assert (A : forall k id, In (k, id) (smap s) -> exists e x, get_ent s id = Some e /\ lookup (pol s) id = Some x /\ pw x = sweight e /\ 1 <= sweight e <= scap s).
  { intros k id Hin. pose proof (Hv id) as G. unfold view_good in G. rewrite Eq in G. cbn [n_new pend remb filter length fold_right rem_ids map existsb] in G.
    assert (R : resb s id = true) by (apply resb_true; eauto). rewrite R in G. destruct G as (_ & b & c & _).
    destruct (b eq_refl) as (e & Ge & _ & b2 & b3 & Alt). destruct Alt as [(X & _)|[(_ & X)|(X & _)]]; try discriminate.
    destruct (lookup (pol s) id) as [x|] eqn:L; [|contradiction]. destruct (c x eq_refl) as (_ & e' & Ge' & _ & _ & _ & c4 & _).
    rewrite Ge in Ge'. inversion Ge'. subst e'. exists e, x. split; [exact Ge|]. split; [reflexivity|]. split; [lia|exact b3]. }
  assert (B : forall id x, lookup (pol s) id = Some x -> resb s id = true).
  { intros id x L. pose proof (Hv id) as G. unfold view_good in G. rewrite Eq, L in G. cbn [n_new pend remb filter length fold_right rem_ids map existsb] in G.
    destruct G as (_ & _ & c & _). destruct (c x eq_refl) as (_ & _ & _ & _ & _ & _ & _ & [R|R]); [exact R|discriminate]. }
  split; [exact A|]. split; [exact B|].
  pose proof HP as (HC & Hle).
  assert (Sum : total_cost s = wsz (pol s)).
  { rewrite (core_sum _ HC). rewrite (sumpw_wof (pol s) (all_items (pol s)) HC (fun x H => H)).
    transitivity (fold_right (fun id a => wof (pol s) id + a) 0 (map snd (smap s))).
    - unfold total_cost. clear - A. induction (smap s) as [|[k id] m IH]; [reflexivity|]. cbn [map snd fold_right].
      rewrite IH by (intros k' id' H; apply (A k' id'); right; exact H). destruct (A k id (or_introl eq_refl)) as (e & x & Ge & L & Px & _).
      unfold cost_of, wof. rewrite Ge, L. lia.
    - apply fold_perm. apply NoDup_Permutation; [apply nodup_res_ids, HK|apply HC|]. intro id. split; intro H.
      + apply in_map_iff in H. destruct H as ([k id'] & E & Hin). cbn in E. subst id'. destruct (A k id Hin) as (e & x & _ & L & _).
        destruct (lookup_some _ _ _ L) as (<- & Hi). apply in_map, Hi.
      + unfold ids_of in H. apply in_map_iff in H. destruct H as (x & <- & Hx). pose proof (B _ x (lookup_in _ x HC Hx)) as R.
        apply resb_true in R. destruct R as (k & Hin). apply in_map_iff. exists (k, pid x). auto. }
  split; [exact Sum|]. split; [rewrite <- Hc; exact Hle|].
  unfold sestimated. pose proof (len_bounds _ HC) as (a & b & c & d). pose proof (core_lt _ HC) as (l1 & l2 & l3 & _).
  rewrite !s64_small by (unfold two63 in *; lia). destruct HC as (_ & _ & _ & _ & Hs & _). lia.
Qed.

(* ---------- in flight: every resident entry the policy does not know yet has its NEW event queued ---------- *)
Lemma untracked_has_new t s k id : Acc t s -> In (k, id) (smap s) -> lookup (pol s) id = None -> n_new (queue s) id = 1%nat.
Proof.
  intros (HK & HP & Hc & He & Hq & Hv) Hin L. pose proof (Hv id) as G. unfold view_good in G.
  assert (R : resb s id = true) by (apply resb_true; eauto). rewrite R, L in G. destruct G as (_ & b & _).
  destruct (b eq_refl) as (e & _ & _ & _ & _ & Alt). destruct Alt as [(X & _)|[(_ & X)|(X & _)]]; [exact X|contradiction|discriminate].
Qed.

Lemma n_new_sum_le (q : list witem) (l : list Z) : NoDup l ->
  (fold_right (fun id a => n_new q id + a) 0 l <= length (filter is_new q))%nat.
Proof.
  intro Hn. induction q as [|it q IH].
  - cbn [filter length]. clear Hn. induction l as [|i l IHl]; [cbn; lia|]. cbn [fold_right]. unfold n_new at 1. cbn [filter length]. lia.
  - assert (E : fold_right (fun id a => (n_new (it :: q) id + a)%nat) 0%nat l =
                Nat.add (fold_right (fun id a => (n_new q id + a)%nat) 0%nat l) (if is_new it && existsb (fun i => Z.eqb i (wsid it)) l then 1%nat else 0%nat)).
    { clear IH. induction l as [|i l IHl]; [cbn; destruct (is_new it); reflexivity|].
      inversion Hn as [|? ? Hi Hd]; subst. cbn [fold_right existsb]. rewrite n_new_cons, (IHl Hd).
      rewrite (Z.eqb_sym i (wsid it)). destruct (Z.eqb_spec (wsid it) i) as [E|N]; cbn [andb orb].
      - assert (X : existsb (fun i0 => i0 =? wsid it) l = false).
        { destruct (existsb _ l) eqn:X; [|reflexivity]. apply existsb_exists in X. destruct X as (y & Hy & Ey). assert (y = i) by lia. subst y. contradiction. }
        rewrite X, andb_false_r. destruct (is_new it); cbn [andb]; lia.
      - destruct (is_new it && existsb (fun i0 => i0 =? wsid it) l); cbn [andb]; lia. }
    rewrite E. cbn [filter]. destruct (is_new it); cbn [andb length]; [destruct (existsb _ l); lia|lia].
Qed.

Lemma in_flight_bound t s : Acc t s ->
  (length (filter (fun kv => match lookup (pol s) (snd kv) with None => true | _ => false end) (smap s)) <= length (filter is_new (queue s)))%nat.
Proof.
  intro HA. pose proof HA as (HK & _).
  set (un := filter (fun kv => match lookup (pol s) (snd kv) with None => true | _ => false end) (smap s)).
  assert (Nd : NoDup (map snd un)).
  { pose proof (nodup_res_ids s HK) as N. unfold un. clear - N. induction (smap s) as [|kv m IH]; [constructor|]. cbn [map] in N. inversion N as [|? ? Hi Hd]; subst.
    cbn [filter]. destruct (lookup (pol s) (snd kv)); [apply IH, Hd|]. cbn [map]. constructor; [|apply IH, Hd].
    intro H. apply Hi. apply in_map_iff in H. destruct H as (y & Ey & Hy). apply filter_In in Hy. apply in_map_iff. exists y. tauto. }
  pose proof (n_new_sum_le (queue s) (map snd un) Nd) as Le.
  assert (E : fold_right (fun id a => (n_new (queue s) id + a)%nat) 0%nat (map snd un) = length un).
  { assert (Hu : forall kv, In kv un -> n_new (queue s) (snd kv) = 1%nat).
    { intros [k id] H. unfold un in H. apply filter_In in H. destruct H as (Hin & L). cbn [snd] in *.
      destruct (lookup (pol s) id) eqn:Lk; [discriminate|]. eapply untracked_has_new; eassumption. }
    clear - Hu. induction un as [|kv u IH]; [reflexivity|]. cbn [map fold_right length]. rewrite (Hu kv (or_introl eq_refl)), IH; [reflexivity|].
    intros y Hy. apply Hu. right. exact Hy. }
  rewrite E in Le. exact Le.
Qed.

(* ---------- a decidable version of the guards, for examples ---------- *)
Definition cost_okb (s : store) (it : witem) : bool :=
  match get_ent s (wsid it) with
  | None => true
  | Some e =>
      let x := spw e + wcost it in
      negb (is_cost it) ||
      ((- two63 <=? x) && (x <? two63) && (negb (is_new it || tracked s (wsid it)) || ((1 <=? x) && (x <=? scap s))))
  end.
Definition rangeb (a0 : Z) : bool := (- two63 <? a0) && (a0 <? two63).
Definition acc_okb (t : Z) (s : store) (o : sop) : bool :=
  match o with
  | OGet _ _ a0 => rangeb a0
  | OSet _ _ cost _ _ _ _ => 0 <=? cost
  | OSink i now a0 _ => (t <=? now) && rangeb a0 &&
      match nth_error (queue s) (Z.to_nat i) with Some it => cost_okb s it | None => true end
  | OTick now => t <=? now
  | OStale _ now => t <=? now
  | OLoad _ _ a0 _ _ _ cost _ _ => rangeb a0 && (0 <=? cost)
  | OClose => false
  | _ => true
  end.
Fixpoint ok_histb (t : Z) (s : store) (ops : list sop) : bool :=
  match ops with
  | [] => true
  | o :: r => acc_okb t s o && ok_histb (next_t t o) (fst (st_step s (enc o))) r
  end.

Lemma cost_okb_sound s it : cost_okb s it = true -> cost_ok s it.
Proof.
  unfold cost_okb, cost_ok. intros H e Ge Ic. rewrite Ge, Ic in H. cbn [negb orb] in H.
  apply andb_true_iff in H. destruct H as (H1 & H2). apply andb_true_iff in H1. destruct H1 as (H0 & H1).
  split; [lia|]. intro T. apply orb_true_iff in H2. destruct H2 as [H2|H2]; [|lia].
  exfalso. destruct T as [T|T]; rewrite T in H2; [discriminate|rewrite orb_true_r in H2; discriminate].
Qed.

Lemma acc_okb_sound t s o : acc_okb t s o = true -> acc_ok t s o.
Proof.
  unfold acc_okb, acc_ok, rangeb, sink_ok. destruct o; try (intro; exact I); try discriminate; intro H; try lia.
  - apply andb_true_iff in H. destruct H as (H1 & H2). apply andb_true_iff in H1. destruct H1 as (H0 & H1).
    split; [lia|]. split; [lia|]. intros it E. rewrite E in H2. apply cost_okb_sound, H2.
Qed.

Lemma ok_histb_sound ops : forall t s, ok_histb t s ops = true -> ok_hist t s ops.
Proof.
  induction ops as [|o r IH]; intros t s H; cbn [ok_histb ok_hist] in *; [exact I|].
  apply andb_true_iff in H. destruct H as (H1 & H2). split; [apply acc_okb_sound, H1|apply IH, H2].
Qed.

(* reorderings: the cost update overtakes the insert; the delete's event is delivered before the
   insert of another key; a tick in between *)
Definition c02_example_ops : list sop :=
  [OSet 1 10 1 0 5 101 1; OSet 1 11 2 0 5 101 1; OSink 1 6 0 0; OSink 0 6 0 0;
   OSet 2 20 2 0 5 102 1; ODel 1 101; OSink 1 7 0 0; OSink 0 7 0 0; OTick 8; OGet 2 9 0].

Lemma c02_example_holds :
  let s0 := newStore 3 1 1 0 in
  ok_hist 0 s0 c02_example_ops /\
  let s := snd (run_acc 0 s0 c02_example_ops) in
  queue s = [] /\ total_cost s = 2 /\ wsz (pol s) = 2 /\ length (smap s) = 1%nat.
Proof.
  cbv zeta. split; [apply ok_histb_sound; vm_compute; reflexivity|]. vm_compute. repeat split.
Qed.
