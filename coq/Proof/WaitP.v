(* Proof/WaitP.v — C20: Wait is a write barrier and always returns (store model queue) *)
From Coq Require Import ZArith List Bool Lia.
From Coq Require Import ZifyBool.
From Verif Require Import Base.Word64 Model.Sketch Model.Expiry Model.Wheel Model.Policy Model.Store.
Import ListNotations.
Open Scope Z_scope.

(* what a batch does to the queue and which waiters it releases *)
Definition markers (items : list witem) : list Z :=
  map wsid (filter (fun it => wcode it =? cWAIT) items).

Lemma sink_batch_released items : forall s now a0 rnd notes ws,
  exists notes', snd (sink_batch items s now a0 rnd notes ws) = notes' ++ [-5] ++ ws ++ markers items.
Proof.
  induction items as [|it r IH]; intros s now a0 rnd notes ws; cbn [sink_batch].
  - exists notes. unfold markers. cbn. rewrite app_nil_r. reflexivity.
  - unfold markers. cbn [filter]. destruct (wcode it =? cWAIT) eqn:E.
    + destruct (IH s now a0 rnd notes (ws ++ [wsid it])) as (n' & H). exists n'. rewrite H.
      cbn [map]. rewrite <- app_assoc. reflexivity.
    + destruct (sinkWrite s it now a0 rnd) as [s' o]. apply IH.
Qed.

Lemma sink_batch_queue items : forall s now a0 rnd notes ws,
  (forall s1 it, queue (fst (sinkWrite s1 it now a0 rnd)) = queue s1) ->
  queue (fst (sink_batch items s now a0 rnd notes ws)) = queue s.
Proof.
  induction items as [|it r IH]; intros s now a0 rnd notes ws Hq; cbn [sink_batch]; [reflexivity|].
  destruct (wcode it =? cWAIT); [apply IH, Hq|].
  pose proof (Hq s it) as Q. destruct (sinkWrite s it now a0 rnd) as [s' o]. cbn [fst] in Q.
  rewrite IH by exact Hq. exact Q.
Qed.

(* the maintenance paths never touch the queue *)
Lemma removeEntry_queue s id r now : queue (fst (removeEntry s id r now)) = queue s.
Proof.
  unfold removeEntry. destruct (get_ent s id); [|reflexivity].
  destruct (_ && _); [reflexivity|]. destruct (_ && _); [reflexivity|].
  destruct (tracked _ _), (scheduled _ _), (_ =? reasonREMOVED); cbn [fst]; try reflexivity;
  repeat match goal with |- context [match ?x with Some _ => _ | None => _ end] => destruct x end;
  repeat match goal with |- context [if ?x then _ else _] => destruct x end; reflexivity.
Qed.

Lemma remove_all_queue ids : forall s r now out, queue (fst (remove_all s ids r now out)) = queue s.
Proof.
  induction ids as [|id l IH]; intros s r now out; cbn [remove_all]; [reflexivity|].
  pose proof (removeEntry_queue s id r now) as Q. destruct (removeEntry s id r now) as [s' o]. cbn [fst] in Q.
  rewrite IH. exact Q.
Qed.

Lemma sinkWrite_queue s it now a0 rnd : queue (fst (sinkWrite s it now a0 rnd)) = queue s.
Proof.
  unfold sinkWrite. destruct (get_ent s (wsid it)) as [e|]; [|reflexivity].
  destruct (f_deleted e); [reflexivity|].
  destruct (_ && _ && _); [destruct (_ =? cREMOVE), (wnvm it); reflexivity|].
  destruct (wcode it =? cNEW).
  { destruct (_ && _).
    - rewrite removeEntry_queue. destruct (_ =? cREMOVE), (wnvm it); reflexivity.
    - destruct (pset _ _ _ _) as [p' ev]. rewrite remove_all_queue.
      destruct (_ =? cREMOVE), (wnvm it), (negb _); reflexivity. }
  destruct (wcode it =? cREMOVE).
  { rewrite removeEntry_queue. destruct (wnvm it); reflexivity. }
  destruct (wcode it =? cUPDATE); [|destruct (wnvm it); reflexivity].
  destruct (_ && _ && _).
  { rewrite removeEntry_queue. destruct (wnvm it); reflexivity. }
  destruct (negb (tracked _ _)); [destruct (wnvm it), (_ && _ && _), (_ && _); reflexivity|].
  destruct (wcost it =? 0); [destruct (wnvm it), (_ && _ && _), (_ && _); reflexivity|].
  destruct (pupdate _ _ _ _) as [p' ev]. rewrite remove_all_queue.
  destruct (wnvm it), (_ && _ && _), (_ && _); reflexivity.
Qed.

(* C20 / barrier: a batch of n items consumes exactly the first n queued items, in order; the
   waiters it releases are exactly those whose marker is among them, and they are released
   only after every item of the batch — in particular everything queued ahead of their marker —
   has been applied (sink_batch releases at the end) *)
Lemma batch_barrier s n now a0 rnd :
  0 <= n ->
  let k := Z.to_nat n in
  let r := drain_batch s n now a0 rnd in
  queue (fst r) = skipn k (queue s) /\
  exists notes, snd r = notes ++ [-5] ++ markers (firstn k (queue s)).
Proof.
  intros Hn k r. unfold r, drain_batch. fold k. split.
  - rewrite sink_batch_queue; [reflexivity|]. intros; apply sinkWrite_queue.
  - destruct (sink_batch_released (firstn k (queue s)) (set_queue s (skipn k (queue s))) now a0 rnd [] []) as (n' & H).
    exists n'. rewrite H. reflexivity.
Qed.

(* everything that was queued ahead of a released marker is in the batch too (FIFO prefix) *)
Lemma ahead_in_batch (q : list witem) k w pre post :
  q = pre ++ w :: post -> In w (firstn k q) -> (length pre < k)%nat -> forall x, In x pre -> In x (firstn k q).
Proof.
  intros -> _ Hlen x Hx. rewrite firstn_app. apply in_or_app. left.
  rewrite firstn_all2 by lia. exact Hx.
Qed.

(* C20 / returns: a batch that covers the whole queue releases every waiter whose marker is queued *)
Lemma all_released s n now a0 rnd :
  Z.of_nat (length (queue s)) <= n ->
  exists notes, snd (drain_batch s n now a0 rnd) = notes ++ [-5] ++ markers (queue s) /\
                queue (fst (drain_batch s n now a0 rnd)) = [].
Proof.
  intro Hn. destruct (batch_barrier s n now a0 rnd ltac:(lia)) as [Q (notes & R)]. cbv zeta in *.
  exists notes. rewrite R, Q. rewrite firstn_all2 by lia. rewrite skipn_all2 by lia. auto.
Qed.

(* Set / Delete / Wait append at the tail: the queue is FIFO *)
Lemma send_fifo s it : queue (send s it) = queue s ++ [it].
Proof. reflexivity. Qed.
