(* Proof/SketchSync.v — CountMinSketch.EnsureCapacity and CountMinSketch.inc as goscrape regenerates them from sketch.go on
   every run (EnsureCapacity as a state transformer over len(Table), SampleSize, BlockMask, Additions and "a fresh table was
   allocated"; inc over the one table word it touches) agree with the hand-written sketch model.  An edit to either
   function - the grow test of seeded changes C17c / C09c, the saturation test of inc - breaks these lemmas. *)
From Coq Require Import ZArith List Bool Lia.
From Verif Require Import Base.Word64 Model.Sketch Gen.Consts Gen.Kernels Proof.KernelSync Proof.SketchR Proof.WheelSync.
Import ListNotations.
Open Scope Z_scope.

Lemma zeros_length n : 0 <= n -> Z.of_nat (length (zeros n)) = n.
Proof. intro H. unfold zeros. rewrite repeat_length. apply Z2Nat.id, H. Qed.

Lemma sync_ensureCapacity (s : sketch) (size : Z) :
  0 <= size <= 2 ^ 62 ->
  let r := g_EnsureCapacity (Z.of_nat (length (table s))) (sampleSize s) (blockMask s) (additions s) size in
  let s' := ensureCapacity s size in
  match r with
  | (len', sample', mask', adds', fresh) =>
      Z.of_nat (length (table s')) = len' /\ sampleSize s' = sample' /\ blockMask s' = mask' /\ additions s' = adds' /\
      (fresh = 0 -> s' = s) /\ (fresh = 1 -> table s' = zeros len') /\ (fresh = 0 \/ fresh = 1)
  end.
Proof.
  intro Hs. cbv zeta. unfold g_EnsureCapacity, ensureCapacity.
  change (2 ^ 62) with 4611686018427387904 in Hs.
  rewrite wrapS64_s64, (s64_small size) by (unfold two63; lia).
  rewrite Z.geb_leb.
  destruct (size <=? Z.of_nat (length (table s))) eqn:E.
  - repeat split; auto. intro; discriminate.
  - set (sz := if size <? 16 then 16 else size).
    assert (Hsz : 16 <= sz <= 4611686018427387904) by (unfold sz; destruct (Z.ltb_spec size 16); lia).
    replace (if size <? 16 then let v_size := 16 in v_size else size) with sz by reflexivity.
    change (g_next2Power sz) with (next2Power sz).
    destruct (next2Power_spec sz ltac:(unfold two63; lia)) as (m & Hm & En & Hle & Hlt).
    set (n := next2Power sz) in *.
    assert (Hn : 16 <= n < two63) by (unfold two63; lia).
    rewrite wrapS64_s64, (s64_small n) by (unfold two63 in *; lia).
    assert (Hsh : 1 <= Z.shiftr n 3 - 1 < two63).
    { rewrite Z.shiftr_div_pow2 by lia. change (2 ^ 3) with 8. unfold two63 in *.
      assert (2 <= n / 8) by (apply Z.div_le_lower_bound; lia).
      assert (n / 8 <= n) by (apply Z.div_le_upper_bound; lia). lia. }
    rewrite wrapS64_s64, (s64_small (Z.shiftr n 3 - 1)) by (unfold two63 in *; lia).
    cbn [table sampleSize blockMask additions].
    rewrite zeros_length by lia.
    repeat split; auto. intro; discriminate.
Qed.

(* inc: the word it reads, the word it writes, whether it added *)
Lemma sync_inc (t : list Z) (index off : Z) : 0 <= off < 16 ->
  let r := g_inc (nthZ t index) index off in
  inc t index off = (if snd r then updZ t index (fst r) else t, snd r).
Proof.
  intro Ho. cbv zeta. unfold g_inc, inc.
  repeat match goal with |- context [wrapU 64 ?x] => change (wrapU 64 x) with (w64 x) end.
  assert (Eo : w64 (Z.shiftl off 2) = Z.shiftl off 2).
  { apply w64_small. rewrite Z.shiftl_mul_pow2 by lia. change (2 ^ 2) with 4. unfold two64. lia. }
  rewrite Eo.
  destruct (Z.land (nthZ t index) (w64 (Z.shiftl 15 (Z.shiftl off 2))) =? w64 (Z.shiftl 15 (Z.shiftl off 2))); reflexivity.
Qed.
