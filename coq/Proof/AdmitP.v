(* Proof/AdmitP.v — C09: the admission decision of W-TinyLFU (tlfu.go admit / evictFromMain) *)
From Coq Require Import ZArith List Bool Lia Permutation.
From Coq Require Import ZifyBool.
From Verif Require Import Base.Word64 Model.Sketch Model.Policy Proof.ExpiryP Proof.PolicyL Proof.PolicyI Proof.PolicyT.
Import ListNotations.
Open Scope Z_scope.

Definition est (p : policy) (e : pent) : Z := estimate (psk p) (ph e).

Lemma admits_iff p c v rnd : admits p c v rnd = true <-> est p v < est p c \/ (6 <= est p c /\ Z.land rnd 127 = 0).
Proof.
  unfold admits, est. destruct (Z.ltb_spec (estimate (psk p) (ph v)) (estimate (psk p) (ph c))); [split; auto|].
  destruct (Z.leb_spec 6 (estimate (psk p) (ph c))).
  - split; [intro E; right; split; [assumption|lia]|intros [X|(_ & X)]; lia].
  - split; [discriminate|intros [X|(X & _)]; lia].
Qed.

(* a candidate that is not more frequent than the victim and has been seen fewer than 6 times is
   never admitted, whatever the coin *)
Lemma cold_never_admitted p c v rnd : est p c <= est p v -> est p c < 6 -> admits p c v rnd = false.
Proof.
  intros H1 H2. destruct (admits p c v rnd) eqn:E; [|reflexivity]. apply admits_iff in E. lia.
Qed.

(* a strictly more frequent candidate is always admitted *)
Lemma hot_always_admitted p c v rnd : est p v < est p c -> admits p c v rnd = true.
Proof. intro H. apply admits_iff. left. exact H. Qed.

(* warm candidates (>= 6) get through against a more frequent victim with probability 1/128 only *)
Lemma warm_needs_coin p c v rnd : est p c <= est p v -> admits p c v rnd = true -> 6 <= est p c /\ Z.land rnd 127 = 0.
Proof. intros H E. apply admits_iff in E. destruct E as [E|E]; [lia|exact E]. Qed.

(* ---------- one round of evictFromMain ---------- *)
Lemma evictm_done n p cand vict cq vq rnd out : wsz p <= pcap p -> evictm_loop (S n) p cand vict cq vq rnd out = (p, out).
Proof. intro H. cbn [evictm_loop]. destruct (Z.ltb_spec (pcap p) (wsz p)); [lia|reflexivity]. Qed.

Lemma evictm_reject n p c v cq vq rnd out : Core p -> In c (all_items p) -> pid c <> pid v -> pcap p < wsz p ->
  admits p c v rnd = false ->
  evictm_loop (S n) p (Some c) (Some v) cq vq rnd out =
  evictm_loop n (premove p c) (prevPolicy p (pid c)) (Some v) cq vq rnd (out ++ [pid c]).
Proof.
  intros HC Hc Nid Over Ad. cbn [evictm_loop]. destruct (Z.ltb_spec (pcap p) (wsz p)); [|lia].
  destruct (Z.eqb_spec (pid c) (pid v)); [contradiction|].
  destruct (s64_cap p HC) as (_ & _ & Sc). pose proof (len_bounds p HC) as (_ & _ & _ & W0).
  assert (Pc : 1 <= pw c <= pcap p) by (apply HC, Hc).
  assert (Sw : s64 (wsz p) = wsz p).
  { apply s64_small. destruct HC as (_&_&_&_&_&_&Hb&_&_&_&Ht&_). bigs. lia. }
  rewrite Sw. destruct (Z.ltb_spec (wsz p) (pw c)); [lia|]. rewrite Ad. reflexivity.
Qed.

Lemma evictm_admit n p c v cq vq rnd out : Core p -> In c (all_items p) -> pid c <> pid v -> pcap p < wsz p ->
  admits p c v rnd = true ->
  evictm_loop (S n) p (Some c) (Some v) cq vq rnd out =
  evictm_loop n (premove p v) (prevPolicy (premove p v) (pid c)) (prevPolicy p (pid v)) cq vq rnd (out ++ [pid v]).
Proof.
  intros HC Hc Nid Over Ad. cbn [evictm_loop]. destruct (Z.ltb_spec (pcap p) (wsz p)); [|lia].
  destruct (Z.eqb_spec (pid c) (pid v)); [contradiction|].
  assert (Pc : 1 <= pw c <= pcap p) by (apply HC, Hc).
  assert (Sw : s64 (wsz p) = wsz p).
  { apply s64_small. pose proof (len_bounds p HC) as (_ & _ & _ & W0). destruct HC as (_&_&_&_&_&_&Hb&_&_&_&Ht&_). bigs. lia. }
  rewrite Sw. destruct (Z.ltb_spec (wsz p) (pw c)); [lia|]. rewrite Ad. reflexivity.
Qed.

(* the one-off newcomer loses: when evicting the candidate is enough to fit, a cold candidate is the
   only entry evicted and the (at least as frequent) victim stays tracked *)
Lemma cold_candidate_evicted n p c v cq vq rnd out : Core p -> In c (all_items p) -> In v (all_items p) -> pid c <> pid v ->
  pcap p < wsz p -> wsz p - pw c <= pcap p -> est p c <= est p v -> est p c < 6 ->
  evictm_loop (S (S n)) p (Some c) (Some v) cq vq rnd out = (premove p c, out ++ [pid c]) /\
  In v (all_items (premove p c)) /\ ~ In (pid c) (ids_of (all_items (premove p c))).
Proof.
  intros HC Hc Hv Nid Over Fit E1 E2.
  rewrite (evictm_reject (S n) p c v cq vq rnd out HC Hc Nid Over (cold_never_admitted p c v rnd E1 E2)).
  destruct (premove_spec p c HC Hc) as (HC' & Ew & Ea & Ec & _).
  rewrite evictm_done by (rewrite Ew, Ec; lia). split; [reflexivity|]. rewrite Ea. split.
  - apply without_in. split; [exact Hv|]. intro X. apply Nid. symmetry. exact X.
  - unfold ids_of. intro H. apply in_map_iff in H. destruct H as (x & Ex & Hx). apply without_in in Hx. tauto.
Qed.

(* and a frequently read candidate displaces a colder victim *)
Lemma hot_candidate_stays n p c v cq vq rnd out : Core p -> In c (all_items p) -> In v (all_items p) -> pid c <> pid v ->
  pcap p < wsz p -> wsz p - pw v <= pcap p -> est p v < est p c ->
  evictm_loop (S (S n)) p (Some c) (Some v) cq vq rnd out = (premove p v, out ++ [pid v]) /\
  In c (all_items (premove p v)).
Proof.
  intros HC Hc Hv Nid Over Fit E1.
  rewrite (evictm_admit (S n) p c v cq vq rnd out HC Hc Nid Over (hot_always_admitted p c v rnd E1)).
  destruct (premove_spec p v HC Hv) as (HC' & Ew & Ea & Ec & _).
  rewrite evictm_done by (rewrite Ew, Ec; lia). split; [reflexivity|]. rewrite Ea. apply without_in. split; [exact Hc|exact Nid].
Qed.

(* a second access moves an entry from probation to the protected region; protected overflow is
   demoted back to probation, never evicted by the demotion itself *)
Lemma second_access_promotes p e : Core p -> In e (litems (prob p)) ->
  In e (litems (prot (slru_access p e))) /\ Permutation (all_items (slru_access p e)) (all_items p).
Proof.
  intros HC Hi. unfold slru_access. rewrite (region_prob p HC e Hi).
  destruct (move_BT p e HC Hi) as (_ & _ & Ew & Eb & Et). split; [rewrite Et; left; reflexivity|].
  unfold all_items. rewrite Ew, Eb, Et. pose proof (nd_parts p HC) as (_ & Nb & _).
  apply Permutation_app_head.
  eapply perm_trans; [|apply Permutation_app_tail, Permutation_sym, (perm_without _ e Nb Hi)].
  cbn [app]. apply Permutation_sym, Permutation_middle.
Qed.

Lemma demotion_keeps_everything p : Core p -> Permutation (all_items (demoteFromProtected p)) (all_items p).
Proof.
  intro HC. unfold demoteFromProtected. generalize (S (length (litems (prot p)))). intro n. revert p HC.
  induction n as [|n IH]; intros p HC; cbn [demote_loop].
  { destruct (_ <? _); apply Permutation_refl. }
  destruct (_ <? _); [|apply Permutation_refl].
  destruct (lback (prot p)) as [e|] eqn:Eb; [|apply Permutation_refl].
  pose proof (lback_in _ _ Eb) as Hi. destruct (move_TB p e HC Hi) as (HC' & _ & Ew & Et & Ebq & _).
  eapply perm_trans; [apply IH, HC'|]. unfold all_items. rewrite Ew, Et, Ebq.
  pose proof (nd_parts p HC) as (_ & _ & Nt & _).
  apply Permutation_app_head. eapply perm_trans; [|apply Permutation_app_head, Permutation_sym, (perm_without _ e Nt Hi)].
  cbn [app]. apply Permutation_middle.
Qed.
