(* Proof/StoreBasic.v — C06 (admission rules, visibility) and C16 (counters, views)
   over the store model. *)
From Coq Require Import ZArith List Bool Lia.
From Coq Require Import ZifyBool.
From Verif Require Import Base.Word64 Model.Sketch Model.Expiry Model.Wheel Model.Policy Model.Store.
From Verif Require Import Proof.ExpiryP Proof.StoreMap.
Import ListNotations.
Open Scope Z_scope.

(* ---------- entry-level invariant: deadlines in range, costs within MaxSize ---------- *)
Definition EInv (s : store) : Prop :=
  1 <= scap s < 2 ^ 62 /\
  forall e, In e (ents s) -> 0 <= sexpire e <= maxInt64 /\ 1 <= sweight e <= scap s.

Lemma EInv_ext s s' : EInv s -> ext s s' -> EInv s'.
Proof.
  intros [C E] (_ & _ & _ & _ & I & _ & P & _ & _). split; [rewrite P; exact C|].
  intros e' H. destruct (I e' H) as (e & He & _ & X & W). rewrite P, <- X, <- W. apply E, He.
Qed.

Lemma setExpire_range now ttl : 0 <= now < 2 ^ 62 -> 0 <= ttl <= maxInt64 ->
  0 <= setExpire now ttl <= maxInt64 /\ (setExpire now ttl = 0 \/ now < setExpire now ttl).
Proof.
  intros Hn Ht. destruct (Z.eq_dec ttl 0) as [->|Ne]; [cbn; unfold maxInt64; lia|].
  destruct (no_wrap now ttl Hn ltac:(lia)) as [A B]. cbv zeta in *. change (2 ^ 62) with 4611686018427387904 in Hn. lia.
Qed.

Lemma updateExpire_range old new now :
  0 <= old <= maxInt64 -> 0 <= new <= maxInt64 -> (new = 0 \/ now < new) ->
  let ex := fst (updateExpire old new now) in
  0 <= ex <= maxInt64 /\ (ex = 0 \/ now < ex \/ (new = 0 /\ ex = old /\ now < old)).
Proof.
  intros Ho Hn Hf. unfold updateExpire. destruct (Z.ltb_spec 0 new); cbn [fst]; [lia|].
  destruct (Z.eqb_spec new 0), (Z.eqb_spec old 0), (Z.leb_spec old now); cbn [andb negb fst]; lia.
Qed.

Lemma in_upd_ent s id f e' : In e' (ents (upd_ent s id f)) ->
  exists e, In e (ents s) /\ e' = (if sid e =? id then f e else e).
Proof.
  unfold upd_ent. cbn [ents set_ents]. intro H. apply in_map_iff in H. destruct H as (e & <- & He). exists e. auto.
Qed.

Lemma set_section_EInv s k v cost expire now h dk nvm :
  EInv s -> 1 <= cost <= scap s -> 0 <= expire <= maxInt64 -> (expire = 0 \/ now < expire) ->
  EInv (fst (fst (set_section s k v cost expire now h dk nvm))).
Proof.
  intros [C E] Hc He Hf. unfold set_section. destruct (sclosed s); [split; assumption|].
  destruct (map_get (smap s) k) as [id|].
  - destruct (get_ent s id) as [e|] eqn:G; [|split; assumption].
    pose proof (updateExpire_range (sexpire e) expire now (proj1 (E e (get_ent_in s id e G))) He Hf) as U.
    destruct (updateExpire (sexpire e) expire now) as [ex rs]. cbn [fst] in *. split; [rewrite scap_si; exact C|].
    intros e' H. rewrite ents_si in H. apply in_upd_ent in H. destruct H as (e0 & H0 & ->).
    rewrite scap_si. change (scap (upd_ent s id (fun e1 => e_dirty (e_weight (e_val (e_expire e1 ex) v) cost) (f_dirty e1 || negb nvm)))) with (scap s).
    destruct (sid e0 =? id); [cbn [sexpire sweight e_weight e_val e_expire e_dirty]; lia|apply E, H0].
  - destruct dk; cbn [negb fst]; [|split; assumption]. split; [rewrite scap_si; exact C|].
    intros e' H. rewrite ents_si in H. cbn [ents set_nextid set_smap set_ents] in H.
    rewrite scap_si. cbn [scap set_nextid set_smap set_ents]. destruct H as [<-|H]; [cbn [sexpire sweight]; lia|apply E, H].
Qed.

(* ---------- C06: Set returns false only for oversize cost or a doorkeeper first sight, and then changes nothing ---------- *)
Lemma set_false_iff s k v cost ttl now h dk s' st :
  sset3 s k v cost ttl now h dk = (s', false, st) ->
  s' = s /\ st = false /\
  (s64 (scap s) < (if cost =? 0 then 1 else cost) \/
   (sclosed s = false /\ map_get (smap s) k = None /\ dk = false)).
Proof.
  unfold sset3. destruct (Z.ltb_spec (s64 (scap s)) (if cost =? 0 then 1 else cost)) as [L|G].
  - intro H. inversion H. subst. split; [reflexivity|]. split; [reflexivity|]. left. exact L.
  - unfold set_section. destruct (sclosed s) eqn:Ecl; [intro H; inversion H|].
    destruct (map_get (smap s) k) as [id|].
    + destruct (get_ent s id) as [e|]; [|intro H; inversion H].
      destruct (updateExpire _ _ _). intro H. inversion H.
    + destruct dk; cbn [negb]; intro H; inversion H. subst. split; [reflexivity|]. split; [reflexivity|]. right. auto.
Qed.

(* a successful Set that took effect is immediately readable at the same instant *)
Lemma set_visible s L k v cost ttl now h dk s' :
  Rinv s L -> EInv s -> 0 <= nowc s <= now -> now < 2 ^ 62 -> 0 <= ttl <= maxInt64 ->
  sset3 s k v cost ttl now h dk = (s', true, true) ->
  exists e, lookup_live s' k now = Some e /\ sval e = v /\ skey e = k.
Proof.
  intros (R & F & D) [C E] Hnc Hn Ht. unfold sset3. destruct (_ <? _); [intro H; inversion H|].
  destruct (setExpire_range now ttl ltac:(lia) Ht) as [Er Ef].
  unfold set_section. destruct (sclosed s) eqn:Ecl; [intro H; inversion H|].
  destruct (map_get (smap s) k) as [id|] eqn:Em.
  - destruct (R k id Em) as (e & G & Si & K & _). rewrite G.
    pose proof (updateExpire_range (sexpire e) (setExpire now ttl) now (proj1 (E e (get_ent_in s id e G))) Er Ef) as U.
    destruct (updateExpire (sexpire e) (setExpire now ttl) now) as [ex rs]. cbn [fst] in U.
    intro H. inversion H. clear H.
    set (f := fun e0 => e_dirty (e_weight (e_val (e_expire e0 ex) v) (if cost =? 0 then 1 else cost)) (f_dirty e0 || true)).
    exists (f e). unfold lookup_live. rewrite sclosed_si. change (sclosed (upd_ent s id f)) with (sclosed s).
    rewrite Ecl. rewrite smap_si. change (smap (upd_ent s id f)) with (smap s). rewrite Em.
    rewrite get_ent_si.
    rewrite get_ent_upd by (intro; reflexivity). rewrite G. rewrite Si, Z.eqb_refl.
    rewrite nowc_si. change (nowc (upd_ent s id f)) with (nowc s).
    change (sexpire (f e)) with ex.
    rewrite fresh_served by lia.
    split; [reflexivity|]. split; [reflexivity|exact K].
  - destruct dk; cbn [negb]; intro H; inversion H. clear H.
    eexists. unfold lookup_live. rewrite sclosed_si, smap_si. cbn [sclosed set_nextid set_smap set_ents smap]. rewrite Ecl.
    rewrite map_get_set_same. rewrite get_ent_si, nowc_si.
    unfold get_ent. cbn [ents set_nextid set_smap set_ents find sid]. rewrite Z.eqb_refl.
    cbn [sexpire nowc set_nextid set_smap set_ents].
    rewrite fresh_served by lia. split; [reflexivity|]. split; reflexivity.
Qed.

(* no path admits a value whose cost exceeds MaxSize: it is an invariant of every history *)
Lemma step_EInv s o : EInv s ->
  (forall k v cost ttl now h dk, o = OSet k v cost ttl now h dk -> 0 <= now < 2 ^ 62 /\ 0 <= ttl <= maxInt64 /\ 0 <= cost) ->
  (forall k now a0 h err v cost ttl dk, o = OLoad k now a0 h err v cost ttl dk -> 0 <= now < 2 ^ 62 /\ 0 <= ttl <= maxInt64 /\ 0 <= cost) ->
  EInv (fst (st_step s (enc o))).
Proof.
  intros H HS HL. destruct o; cbn [enc st_step fst]; try exact H.
  - unfold sget. destruct (lookup_live s _ _); cbn [fst].
    + eapply EInv_ext; [exact H|]. eapply ext_trans; [apply ext_counts|apply record_hit_ext].
    + eapply EInv_ext; [exact H|apply ext_counts].
  - destruct (HS _ _ _ _ _ _ _ eq_refl) as (Hn & Ht & Hc). unfold sset, sset3.
    destruct (Z.ltb_spec (s64 (scap s)) (if cost =? 0 then 1 else cost)); cbn [fst]; [exact H|].
    destruct (setExpire_range now ttl Hn Ht) as [Er Ef].
    assert (Hs : s64 (scap s) = scap s).
    { destruct H as [C _]. change (2 ^ 62) with 4611686018427387904 in C. apply s64_small. unfold two63. lia. }
    match goal with |- context [set_section ?a ?b ?c ?d ?e ?n ?f ?g ?hh] =>
      pose proof (set_section_EInv a b c d e n f g hh H) as Q; destruct (set_section a b c d e n f g hh) as [[s' ok] st] end.
    cbn [fst] in *. apply Q; [|exact Er|exact Ef]. destruct (Z.eqb_spec cost 0); lia.
  - unfold sdelete. destruct (sclosed s); [exact H|]. destruct (map_get _ _); [|exact H].
    eapply EInv_ext; [exact H|]. eapply ext_trans; [apply ext_mapdel|apply ext_queue].
  - unfold sink_nth. destruct (nth_error _ _); [|exact H].
    eapply EInv_ext; [exact H|]. eapply ext_trans; [apply ext_queue|apply sinkWrite_ext].
  - eapply EInv_ext; [exact H|apply tick_ext].
  - destruct (HL _ _ _ _ _ _ _ _ _ eq_refl) as (Hn & Ht & Hc). unfold sload, sload3.
    destruct (lookup_live s _ _); cbn [fst].
    + eapply EInv_ext; [exact H|]. eapply ext_trans; [apply ext_counts|apply record_hit_ext].
    + assert (H1 : EInv (set_counts s (hits s) (misses s + 1))) by (eapply EInv_ext; [exact H|apply ext_counts]).
      change (sclosed (set_counts s (hits s) (misses s + 1))) with (sclosed s).
      destruct (sclosed s); [exact H1|]. destruct (negb (_ =? 0)); [exact H1|].
      change (scap (set_counts s (hits s) (misses s + 1))) with (scap s).
      destruct (Z.ltb_spec (s64 (scap s)) (if cost =? 0 then 1 else cost)); [exact H1|].
      destruct (setExpire_range now ttl Hn Ht) as [Er Ef].
      assert (Hs : s64 (scap s) = scap s).
      { destruct H as [C _]. change (2 ^ 62) with 4611686018427387904 in C. apply s64_small. unfold two63. lia. }
      match goal with |- context [set_section ?a ?b ?c ?d ?e ?n ?f ?g ?hh] =>
        pose proof (set_section_EInv a b c d e n f g hh H1) as Q; destruct (set_section a b c d e n f g hh) as [[s' ok] st] end.
      cbn [fst] in *. apply Q; [|exact Er|exact Ef]. change (scap (set_counts s (hits s) (misses s + 1))) with (scap s).
      destruct (Z.eqb_spec cost 0); lia.
  - destruct (map_get (smap s) _); [|cbn [fst]; exact H].
    eapply EInv_ext; [exact H|]. eapply ext_trans; [apply ext_whl|apply removeEntry_ext].
Qed.

(* ---------- C16: counters ---------- *)
Lemma removeEntry_counts s id r now :
  hits (fst (removeEntry s id r now)) = hits s /\ misses (fst (removeEntry s id r now)) = misses s.
Proof.
  unfold removeEntry. destruct (get_ent s id); [|auto].
  destruct (_ && _); [auto|]. destruct (_ && _); [auto|].
  destruct (tracked _ _), (scheduled _ _), (_ =? reasonREMOVED); cbn [fst]; auto;
  repeat match goal with |- context [match ?x with Some _ => _ | None => _ end] => destruct x end;
  repeat match goal with |- context [if ?x then _ else _] => destruct x end; auto.
Qed.

Lemma remove_all_counts ids : forall s r now out,
  hits (fst (remove_all s ids r now out)) = hits s /\ misses (fst (remove_all s ids r now out)) = misses s.
Proof.
  induction ids as [|id l IH]; intros s r now out; cbn [remove_all]; [auto|].
  pose proof (removeEntry_counts s id r now) as [A B]. destruct (removeEntry s id r now) as [s' o]. cbn [fst] in *.
  destruct (IH s' r now (out ++ o)) as [A' B']. split; congruence.
Qed.

Definition same_counts (s s' : store) : Prop := hits s' = hits s /\ misses s' = misses s.

Lemma sinkWrite_counts s it now a0 rnd : same_counts s (fst (sinkWrite s it now a0 rnd)).
Proof.
  unfold same_counts, sinkWrite. destruct (get_ent s (wsid it)) as [e|]; [|auto].
  destruct (f_deleted e); [auto|].
  destruct (_ && _ && _); [destruct (_ =? cREMOVE), (wnvm it); auto|].
  destruct (wcode it =? cNEW).
  { destruct (_ && _).
    - match goal with |- context [removeEntry ?a ?b ?c ?d] => destruct (removeEntry_counts a b c d) as [A B]; rewrite A, B end.
      destruct (_ =? cREMOVE), (wnvm it); auto.
    - destruct (pset _ _ _ _) as [p' ev].
      match goal with |- context [remove_all ?a ?b ?c ?d ?e] => destruct (remove_all_counts b a c d e) as [A B]; rewrite A, B end.
      destruct (_ =? cREMOVE), (wnvm it), (negb _); auto. }
  destruct (wcode it =? cREMOVE).
  { match goal with |- context [removeEntry ?a ?b ?c ?d] => destruct (removeEntry_counts a b c d) as [A B]; rewrite A, B end.
    destruct (wnvm it); auto. }
  destruct (wcode it =? cUPDATE); [|destruct (wnvm it); auto].
  destruct (_ && _ && _).
  { match goal with |- context [removeEntry ?a ?b ?c ?d] => destruct (removeEntry_counts a b c d) as [A B]; rewrite A, B end.
    destruct (wnvm it); auto. }
  destruct (negb (tracked _ _)); [destruct (wnvm it), (_ && _ && _), (_ && _); auto|].
  destruct (wcost it =? 0); [destruct (wnvm it), (_ && _ && _), (_ && _); auto|].
  destruct (pupdate _ _ _ _) as [p' ev].
  match goal with |- context [remove_all ?a ?b ?c ?d ?e] => destruct (remove_all_counts b a c d e) as [A B]; rewrite A, B end.
  destruct (wnvm it), (_ && _ && _), (_ && _); auto.
Qed.

Lemma tick_counts s now : same_counts s (fst (tick s now)).
Proof.
  unfold tick.
  apply (levels_pres (store * list Z) (fun st => whl (fst st)) (svisit now) (fun st => same_counts s (fst st))).
  - intros [s1 out] we [A B]. unfold svisit. cbn [fst] in *.
    destruct (get_ent s1 (eid we)) as [e|]; [|split; assumption].
    destruct (_ <=? _).
    + match goal with |- context [removeEntry ?a ?b ?c ?d] => pose proof (removeEntry_counts a b c d) as [A' B']; destruct (removeEntry a b c d) as [s2 o] end.
      cbn [fst] in *. split; [rewrite A'; exact A|rewrite B'; exact B].
    + split; assumption.
  - split; reflexivity.
Qed.

Lemma drain_loop_counts items : forall s a0, same_counts s (drain_loop items s a0).
Proof.
  induction items as [|[id h] r IH]; intros s a0; cbn [drain_loop]; [split; reflexivity|].
  destruct (get_ent s id) as [e|]; [|apply IH]. destruct (f_removed e); [apply IH|].
  destruct (IH (set_pol s (paccess (pol s) id h a0)) a0) as [A B]. split; [exact A|exact B].
Qed.

Lemma record_hit_counts s id h a0 : same_counts s (record_hit s id h a0).
Proof.
  unfold record_hit. destruct (_ =? 16); [|split; reflexivity].
  destruct (drain_loop_counts (rbuf s ++ [(id, h)]) (set_rbuf s []) a0) as [A B]. split; [exact A|exact B].
Qed.

(* a Get / loading Get is a read; its result code 1 means "answered from the map" *)
Definition is_read (o : sop) : bool :=
  match o with OGet _ _ _ => true | OLoad _ _ _ _ _ _ _ _ _ => true | _ => false end.
Definition answered (out : list Z) : bool := match out with 1 :: _ => true | _ => false end.

Lemma step_counts s o :
  let r := st_step s (enc o) in
  hits (fst r) = hits s + (if is_read o && answered (snd r) then 1 else 0) /\
  misses (fst r) = misses s + (if is_read o && negb (answered (snd r)) then 1 else 0).
Proof.
  destruct o; cbn [enc st_step is_read andb fst snd]; try (split; lia); try (cbn; split; lia).
  - unfold sget. destruct (lookup_live s k now) as [e|]; cbn [fst snd answered negb].
    + destruct (record_hit_counts (set_counts s (hits s + 1) (misses s)) (sid e) (shash e) a0) as [A B]. cbn in *. lia.
    + cbn. lia.
  - unfold sset. destruct (sset3 _ _ _ _ _ _ _ _) as [[s' ok] st] eqn:E. cbn [fst].
    unfold sset3 in E. destruct (_ <? _); [inversion E; lia|].
    unfold set_section in E. destruct (sclosed s); [inversion E; lia|].
    destruct (map_get _ _); [destruct (get_ent _ _); [destruct (updateExpire _ _ _)|]|destruct (negb _)]; inversion E; rewrite ?hits_si, ?misses_si; cbn; lia.
  - unfold sdelete. destruct (sclosed s); [lia|]. destruct (map_get _ _); cbn; lia.
  - unfold sink_nth. destruct (nth_error _ _); [|cbn; lia].
    match goal with |- context [sinkWrite ?a ?b ?c ?d ?e] => destruct (sinkWrite_counts a b c d e) as [A B] end. cbn in *. lia.
  - destruct (tick_counts s now) as [A B]. lia.
  - unfold sload. destruct (sload3 _ _ _ _ _ _ _ _ _ _) as [[s' out] st] eqn:E. cbn [fst snd].
    unfold sload3 in E. destruct (lookup_live s k now) as [e|].
    + inversion E. subst. cbn [answered negb].
      destruct (record_hit_counts (set_counts s (hits s + 1) (misses s)) (sid e) (shash e) a0) as [A B]. cbn in *. lia.
    + cbn [sclosed set_counts] in E. destruct (sclosed s); [inversion E; cbn; lia|].
      destruct (negb (err =? 0)); [inversion E; cbn; lia|].
      cbn [scap] in E. destruct (_ <? _); [inversion E; cbn; lia|].
      unfold set_section in E. cbn [sclosed set_counts smap] in E.
      destruct (sclosed s); [inversion E; cbn; lia|].
      destruct (map_get _ _); [destruct (get_ent _ _); [destruct (updateExpire _ _ _)|]|destruct (negb _)]; inversion E; rewrite ?hits_si, ?misses_si; cbn; lia.
  - destruct (map_get (smap s) _); [|cbn; lia].
    match goal with |- context [removeEntry ?a ?b ?c ?d] => destruct (removeEntry_counts a b c d) as [A B] end. cbn in *. lia.
Qed.

(* over a whole history: hits + misses = number of Get calls, hits = number answered *)
Fixpoint run1 (s : store) (ops : list sop) : store :=
  match ops with [] => s | o :: r => run1 (fst (st_step s (enc o))) r end.
Fixpoint reads_answered (s : store) (ops : list sop) : Z * Z :=
  match ops with
  | [] => (0, 0)
  | o :: r =>
      let res := st_step s (enc o) in
      let '(n, a) := reads_answered (fst res) r in
      ((if is_read o then 1 else 0) + n, (if is_read o && answered (snd res) then 1 else 0) + a)
  end.

Lemma counters_exact ops : forall s,
  let '(n, a) := reads_answered s ops in
  hits (run1 s ops) = hits s + a /\ hits (run1 s ops) + misses (run1 s ops) = hits s + misses s + n.
Proof.
  induction ops as [|o r IH]; intro s; cbn [reads_answered run1]; [lia|].
  pose proof (step_counts s o) as [A B]. cbv zeta in A, B.
  specialize (IH (fst (st_step s (enc o)))). destruct (reads_answered _ r) as [n a].
  destruct IH as [I1 I2]. destruct (is_read o), (answered (snd (st_step s (enc o)))); cbn [andb negb] in *; lia.
Qed.

(* Len is the number of resident entries; Range visits each resident unexpired key once *)
Lemma len_is_resident s : slen s = Z.of_nat (length (smap s)).
Proof. reflexivity. Qed.

Lemma range_once s L now : Rinv s L ->
  NoDup (map fst (flat_map (fun kv =>
                 match get_ent s (snd kv) with
                 | Some e => if rangeVisible (sexpire e) now then [(skey e, sval e)] else []
                 | None => [] end) (smap s))).
Proof.
  intros (R & _ & D).
  set (g := fun kv : Z * Z => match get_ent s (snd kv) with
                 | Some e => if rangeVisible (sexpire e) now then [(skey e, sval e)] else []
                 | None => [] end).
  assert (K : forall k id, In (k, id) (smap s) -> forall e, get_ent s id = Some e -> skey e = k).
  { intros k id Hin e G. pose proof (in_map_get _ _ _ D Hin) as Hm.
    destruct (R k id Hm) as (e' & G' & _ & K' & _). congruence. }
  assert (G : forall m, (forall k id, In (k, id) m -> forall e, get_ent s id = Some e -> skey e = k) ->
              NoDup (map fst m) ->
              NoDup (map fst (flat_map g m)) /\ (forall x, In x (map fst (flat_map g m)) -> In x (map fst m))).
  { induction m as [|[k id] m IH]; intros Hk Hd; [split; [constructor|auto]|].
    cbn [map fst] in Hd. inversion Hd as [|? ? Hn Hd']; subst.
    destruct (IH (fun k' id' Hi => Hk k' id' (or_intror Hi)) Hd') as [N S].
    cbn [flat_map]. unfold g at 1 3. cbn [snd].
    destruct (get_ent s id) as [e|] eqn:Ge; [|split; [exact N|intros x Hx; right; apply S, Hx]].
    destruct (rangeVisible _ _); [|split; [exact N|intros x Hx; right; apply S, Hx]].
    cbn [app map fst]. rewrite (Hk k id (or_introl eq_refl) e Ge). split.
    - constructor; [|exact N]. intro Hin. apply Hn, S, Hin.
    - intros x [<-|Hx]; [left; reflexivity|right; apply S, Hx]. }
  apply (G (smap s) K D).
Qed.

Lemma fresh_after_expiry old now ttl :
  0 <= now < 2 ^ 62 -> 0 <= ttl <= maxInt64 -> 0 < old <= now ->
  fst (updateExpire old (setExpire now ttl) now) = if ttl =? 0 then 0 else Z.min maxInt64 (now + ttl).
Proof.
  intros Hn Ht Ho. rewrite ttl_update by (unfold maxInt64 in *; lia).
  destruct (ttl =? 0); [|reflexivity].
  destruct (Z.eqb_spec old 0); [lia|]. destruct (Z.leb_spec old now); [reflexivity|lia].
Qed.
