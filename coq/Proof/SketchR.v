(* Proof/SketchR.v — C17: aging reset, recurrence of resets, growth *)
From Coq Require Import ZArith List Bool Lia.
From Coq Require Import ZifyBool.
From Verif Require Import Base.Word64 Model.Sketch Proof.Nibble Proof.SketchP Proof.SketchT.
Import ListNotations.
Open Scope Z_scope.
Ltac Zify.zify_post_hook ::= Z.div_mod_to_equations.

Lemma resetMask_digits : resetMask = rep_digit 7 16. Proof. reflexivity. Qed.
Lemma oneMask_digits : oneMask = rep_digit 1 16. Proof. reflexivity. Qed.

Definition total_odd (t : list Z) : Z := fold_right (fun v acc => odd_nibs 16 v + acc) 0 t.

Lemma odd_count_eq t : Forall wordOK t -> odd_count t = total_odd t.
Proof.
  intro Hw. unfold odd_count.
  assert (G : forall l a, Forall wordOK l ->
     fold_left (fun acc v => acc + popcount64 (Z.land v oneMask)) l a = a + total_odd l).
  { induction l as [|x l IH]; intros a Hl; cbn [fold_left]; [cbn; lia|].
    inversion Hl as [|? ? Hx Hl']; subst. rewrite IH by exact Hl'.
    unfold popcount64. rewrite oneMask_digits. rewrite popc_odd by (unfold wordOK in Hx; lia).
    change (total_odd (x :: l)) with (odd_nibs 16 x + total_odd l). lia. }
  rewrite G by exact Hw. lia.
Qed.

Lemma total_odd_bound t : 0 <= total_odd t <= 16 * Z.of_nat (length t).
Proof.
  induction t as [|x t IH]; [cbn; lia|].
  change (total_odd (x :: t)) with (odd_nibs 16 x + total_odd t).
  pose proof (odd_nibs_bound 16 x). cbn [length]. lia.
Qed.

Lemma reset_word_ok v : wordOK v -> wordOK (reset_word v).
Proof.
  unfold wordOK, reset_word. intro Hv. rewrite resetMask_digits.
  pose proof (reset_word_range 16 v ltac:(lia)) as R.
  assert (rep_digit 7 16 < two64) by (vm_compute; reflexivity). lia.
Qed.

Lemma nth_map_reset t i : nthZ (map reset_word t) i = reset_word (nthZ t i).
Proof.
  unfold nthZ. change 0 with (reset_word 0) at 1. apply map_nth.
Qed.

(* C17 / 3 : a reset halves every counter, and the addition counter follows *)
Lemma reset_halves s :
  TWF s -> sampleSize s = 10 * Z.of_nat (length (table s)) -> additions s = sampleSize s ->
  let s' := reset s in
  TWF s' /\ blockMask s' = blockMask s /\ sampleSize s' = sampleSize s /\
  length (table s') = length (table s) /\
  (forall i j, (j < 16)%nat -> cnt (table s') i j = cnt (table s) i j / 2) /\
  0 <= total_odd (table s) / 4 <= additions s /\
  additions s' = (additions s - total_odd (table s) / 4) / 2 /\
  0 <= additions s' < sampleSize s'.
Proof.
  intros (k & Hk & Hb & Hl & Hw) Hss Hadd. cbv zeta. unfold reset. cbn [table additions sampleSize blockMask].
  rewrite (odd_count_eq _ Hw). pose proof (total_odd_bound (table s)) as Ho.
  assert (0 < 2 ^ k) by (apply Z.pow_pos_nonneg; lia).
  assert (2 ^ k <= 2 ^ 57) by (apply Z.pow_le_mono_r; lia).
  change (2 ^ 57) with 144115188075855872 in *.
  rewrite !Z.shiftr_div_pow2 by lia. change (2 ^ 2) with 4. change (2 ^ 1) with 2.
  set (L := Z.of_nat (length (table s))) in *.
  assert (E : w64 (additions s - total_odd (table s) / 4) = additions s - total_odd (table s) / 4).
  { unfold w64. apply Z.mod_small. unfold two64. lia. }
  rewrite E. split; [|repeat split].
  - exists k. cbn [table blockMask]. repeat split; auto; try lia.
    + rewrite map_length. exact Hl.
    + rewrite Forall_forall in *. intros x Hx. apply in_map_iff in Hx. destruct Hx as (y & <- & Hy).
      apply reset_word_ok, Hw, Hy.
  - apply map_length.
  - intros i j Hj. unfold cnt. rewrite nth_map_reset. unfold reset_word. rewrite resetMask_digits.
    apply reset_nibbles; [|exact Hj]. pose proof (nthZ_ok (table s) i Hw). unfold wordOK in *. lia.
  - lia.
  - lia.
  - lia.
  - lia.
Qed.

(* C17 / 4 : Additions < SampleSize is invariant; every successful Add either
   increments it by exactly one or triggers the reset *)
Lemma add_step s h :
  WF s -> 0 <= h < two64 ->
  let '(s', r) := add s h in
  WF s' /\ blockMask s' = blockMask s /\ length (table s') = length (table s) /\
  sampleSize s' = sampleSize s /\
  (r = false -> additions s' = additions s \/ additions s' = additions s + 1) /\
  (r = true <-> snd (inc4 (table s) (rehash h) (blockOf s h)) = true /\ additions s + 1 = sampleSize s) /\
  (r = false -> additions s' = additions s + b2z (snd (inc4 (table s) (rehash h) (blockOf s h)))).
Proof.
  intros ((k & Hk & Hb & Hl & Hw) & Hss & Ha) Hh. unfold add.
  destruct (inc4_spec s k Hk Hb (table s) h ltac:(split; assumption) ltac:(lia)) as (T1 & _ & _ & _).
  destruct (inc4 (table s) (rehash h) (blockOf s h)) as [t1 added] eqn:E4. cbn [fst snd] in *.
  destruct T1 as [Tl Tw].
  assert (0 < 2 ^ k) by (apply Z.pow_pos_nonneg; lia).
  assert (2 ^ k <= 2 ^ 57) by (apply Z.pow_le_mono_r; lia).
  change (2 ^ 57) with 144115188075855872 in *.
  assert (Elen : length t1 = length (table s)) by lia.
  assert (E1 : w64 (additions s + 1) = additions s + 1).
  { unfold w64. apply Z.mod_small. unfold two64. lia. }
  destruct added.
  - cbn [additions sampleSize]. rewrite E1.
    destruct (Z.eqb_spec (additions s + 1) (sampleSize s)) as [Eq|Ne].
    + set (s2 := mkSketch t1 (additions s + 1) (sampleSize s) (blockMask s)).
      assert (T2 : TWF s2) by (exists k; unfold s2; cbn [table blockMask]; repeat split; auto; lia).
      destruct (reset_halves s2 T2 ltac:(unfold s2; cbn [sampleSize table]; rewrite Elen; exact Hss) ltac:(unfold s2; cbn [sampleSize additions]; exact Eq))
        as (R1 & R2 & R3 & R4 & _ & _ & _ & R8).
      split. { split; [exact R1|]. split; [|exact R8]. rewrite R3, R4. unfold s2. cbn [sampleSize table]. rewrite Elen. exact Hss. }
      split. { exact R2. }
      split. { rewrite R4. exact Elen. }
      split. { exact R3. }
      split. { discriminate. }
      split. { split; [intros _; split; [reflexivity|exact Eq] | reflexivity]. }
      discriminate.
    + split. { split; [exists k; cbn [table blockMask]; repeat split; auto; lia|]. cbn [sampleSize table additions]. rewrite Elen. lia. }
      split. { reflexivity. }
      split. { exact Elen. }
      split. { reflexivity. }
      split. { intros _. right. reflexivity. }
      split. { split; [discriminate | intros [_ X]; lia]. }
      intros _. reflexivity.
  - split. { split; [exists k; cbn [table blockMask]; repeat split; auto; lia|]. cbn [sampleSize table additions]. rewrite Elen. lia. }
    split. { reflexivity. }
    split. { exact Elen. }
    split. { reflexivity. }
    split. { intros _. left. reflexivity. }
    split. { split; [discriminate | intros [X _]; discriminate]. }
    intros _. cbn. lia.
Qed.

(* sequences of Add: while no reset happens, Additions counts the successful
   additions exactly and stays below SampleSize — so a reset must occur within
   SampleSize successful additions *)
Fixpoint run_adds (s : sketch) (hs : list Z) : sketch * Z * bool :=
  match hs with
  | [] => (s, 0, false)
  | h :: r =>
      let ok := snd (inc4 (table s) (rehash h) (blockOf s h)) in
      let '(s', rs) := add s h in
      if rs then (s', 0, true)
      else let '(s'', n, b) := run_adds s' r in (s'', b2z ok + n, b)
  end.

Lemma resets_recur hs : forall s, WF s -> Forall (fun h => 0 <= h < two64) hs ->
  let '(s', n, rs) := run_adds s hs in
  WF s' /\ (rs = false -> additions s' = additions s + n /\ additions s + n < sampleSize s).
Proof.
  induction hs as [|h r IH]; intros s Hwf Hhs; cbn [run_adds].
  - split; [exact Hwf|]. intros _. destruct Hwf as (_ & _ & Ha). lia.
  - inversion Hhs as [|? ? Hh Hr]; subst.
    pose proof (add_step s h Hwf Hh) as A.
    destruct (add s h) as [s1 rs1]. destruct A as (W1 & _ & _ & SS & _ & _ & Acc).
    destruct rs1.
    + split; [exact W1|discriminate].
    + specialize (IH s1 W1 Hr). destruct (run_adds s1 r) as [[s2 n] b].
      destruct IH as [W2 IH2]. split; [exact W2|]. intros ->.
      specialize (IH2 eq_refl). specialize (Acc eq_refl). lia.
Qed.

(* ---------- next2Power ---------- *)
Section Smear.
  Variable y : Z.
  Definition covers (n : Z) (a : Z) : Prop :=
    forall i, 0 <= i -> (Z.testbit a i = true <-> exists j, 0 <= j < n /\ Z.testbit y (i + j) = true).

  Lemma covers_1 : covers 1 y.
  Proof.
    intros i Hi. split.
    - intro H. exists 0. split; [lia|]. rewrite Z.add_0_r. exact H.
    - intros (j & Hj & H). replace (i + j) with i in H by lia. exact H.
  Qed.

  Lemma covers_step n a : 0 < n -> covers n a -> covers (2 * n) (smear a n).
  Proof.
    intros Hn C i Hi. unfold smear. rewrite Z.lor_spec, Z.shiftr_spec by lia.
    rewrite orb_true_iff. rewrite (C i Hi). rewrite (C (i + n) ltac:(lia)). split.
    - intros [(j & Hj & H) | (j & Hj & H)].
      + exists j. split; [lia|exact H].
      + exists (n + j). split; [lia|]. replace (i + (n + j)) with (i + n + j) by lia. exact H.
    - intros (j & Hj & H). destruct (Z.lt_ge_cases j n) as [L|G].
      + left. exists j. split; [lia|exact H].
      + right. exists (j - n). split; [lia|]. replace (i + n + (j - n)) with (i + j) by lia. exact H.
  Qed.
End Smear.

Lemma smear_all y m : 0 < y -> Z.log2 y = m - 1 -> m <= 64 ->
  smear (smear (smear (smear (smear (smear y 1) 2) 4) 8) 16) 32 = Z.ones m.
Proof.
  intros Hy Hlog Hm.
  assert (C : covers y 64 (smear (smear (smear (smear (smear (smear y 1) 2) 4) 8) 16) 32)).
  { pose proof (covers_step y 1 _ ltac:(lia) (covers_1 y)) as C2.
    pose proof (covers_step y 2 _ ltac:(lia) C2) as C4.
    pose proof (covers_step y 4 _ ltac:(lia) C4) as C8.
    pose proof (covers_step y 8 _ ltac:(lia) C8) as C16.
    pose proof (covers_step y 16 _ ltac:(lia) C16) as C32.
    pose proof (covers_step y 32 _ ltac:(lia) C32) as C64.
    exact C64. }
  pose proof (Z.log2_nonneg y).
  apply Z.bits_inj'. intros i Hi.
  destruct (Z.lt_ge_cases i m) as [L|G].
  - rewrite Z.ones_spec_low by lia. apply C; [lia|].
    exists (m - 1 - i). split; [lia|]. replace (i + (m - 1 - i)) with (Z.log2 y) by lia.
    apply Z.bit_log2. exact Hy.
  - rewrite Z.ones_spec_high by lia.
    destruct (Z.testbit _ i) eqn:E; [|reflexivity].
    apply C in E; [|lia]. destruct E as (j & Hj & E).
    rewrite Z.bits_above_log2 in E by lia. discriminate.
Qed.

Lemma next2Power_spec x : 2 <= x <= two63 ->
  exists m, 1 <= m <= 63 /\ next2Power x = 2 ^ m /\ x <= 2 ^ m /\ 2 ^ m < 2 * x.
Proof.
  intro Hx. unfold next2Power.
  assert (Ew : w64 (x - 1) = x - 1) by (unfold w64; apply Z.mod_small; unfold two64, two63 in *; lia).
  rewrite Ew. set (y := x - 1). assert (Hy : 0 < y) by (unfold y; lia).
  set (m := Z.log2 y + 1).
  pose proof (Z.log2_nonneg y). pose proof (Z.log2_spec y Hy) as [Lo Hi].
  assert (Hm63 : m <= 63).
  { unfold m. assert (Z.log2 y < 63); [|lia]. apply Z.log2_lt_pow2; [lia|].
    change (2 ^ 63) with two63. unfold y. lia. }
  rewrite (smear_all y m Hy) by (unfold m; lia).
  rewrite Z.ones_equiv. replace (Z.pred (2 ^ m) + 1) with (2 ^ m) by lia.
  assert (2 ^ m <= 2 ^ 63) by (apply Z.pow_le_mono_r; lia).
  change (2 ^ 63) with 9223372036854775808 in *.
  assert (0 < 2 ^ m) by (apply Z.pow_pos_nonneg; lia).
  exists m. split; [unfold m; lia|]. split.
  - unfold w64. apply Z.mod_small. unfold two64. lia.
  - replace (Z.succ (Z.log2 y)) with m in Hi by (unfold m; lia).
    assert (2 ^ m = 2 * 2 ^ Z.log2 y).
    { unfold m. rewrite Z.pow_add_r by lia. lia. }
    unfold y in *. lia.
Qed.

(* C17 / 5 : growing never shrinks the table and keeps it well formed *)
Lemma grow_monotone s size :
  (table s = [] \/ WF s) -> 0 <= size <= 2 ^ 59 ->
  let s' := ensureCapacity s size in
  (s' = s \/ (WF s' /\ additions s' = 0 /\ size <= Z.of_nat (length (table s')) /\
              Z.of_nat (length (table s')) < 2 * Z.max size 16)) /\
  (length (table s) <= length (table s'))%nat /\
  (size <= Z.of_nat (length (table s'))).
Proof.
  intros Hs Hsz. cbv zeta. unfold ensureCapacity.
  destruct (Z.geb_spec (Z.of_nat (length (table s))) size) as [G|L].
  - split; [left; reflexivity|]. split; lia.
  - set (sz := if size <? 16 then 16 else size).
    assert (Hsz' : 16 <= sz <= 2 ^ 59 /\ size <= sz /\ sz = Z.max size 16).
    { unfold sz. change (2 ^ 59) with 576460752303423488 in *. destruct (Z.ltb_spec size 16); lia. }
    change (2 ^ 59) with 576460752303423488 in *.
    destruct (next2Power_spec sz ltac:(unfold two63; lia)) as (m & Hm & En & Hle & Hlt).
    rewrite En.
    assert (Hm4 : 4 <= m).
    { destruct (Z.lt_ge_cases m 4) as [X|X]; [|exact X].
      assert (2 ^ m <= 2 ^ 3) by (apply Z.pow_le_mono_r; lia). change (2 ^ 3) with 8 in *. lia. }
    assert (Hm60 : m <= 60).
    { destruct (Z.lt_ge_cases 60 m) as [X|X]; [|exact X].
      assert (2 ^ 61 <= 2 ^ m) by (apply Z.pow_le_mono_r; lia). change (2 ^ 61) with 2305843009213693952 in *. lia. }
    assert (P60 : 2 ^ m <= 2 ^ 60) by (apply Z.pow_le_mono_r; lia).
    change (2 ^ 60) with 1152921504606846976 in *.
    assert (Hpos : 0 < 2 ^ m) by (apply Z.pow_pos_nonneg; lia).
    assert (E8 : 2 ^ m = 8 * 2 ^ (m - 3)).
    { replace m with (3 + (m - 3)) at 1 by lia. rewrite Z.pow_add_r by lia. reflexivity. }
    assert (Hp3 : 0 < 2 ^ (m - 3)) by (apply Z.pow_pos_nonneg; lia).
    assert (Elen : Z.of_nat (length (zeros (2 ^ m))) = 2 ^ m).
    { unfold zeros. rewrite repeat_length. lia. }
    cbn [table additions].
    split; [right|split].
    + split; [|split; [reflexivity|rewrite Elen; lia]].
      split; [|cbn [sampleSize table additions]; rewrite Elen; unfold w64; rewrite Z.mod_small by (unfold two64; lia); lia].
      exists (m - 3). cbn [table blockMask]. split; [lia|]. split; [|split].
      * rewrite Z.shiftr_div_pow2 by lia. change (2 ^ 3) with 8.
        replace (2 ^ m / 8) with (2 ^ (m - 3)) by lia.
        unfold w64. apply Z.mod_small. unfold two64. lia.
      * rewrite Elen. exact E8.
      * unfold zeros. apply Forall_forall. intros x Hx. apply repeat_spec in Hx. subst x.
        unfold wordOK, two64. lia.
    + lia.
    + rewrite Elen. lia.
Qed.
