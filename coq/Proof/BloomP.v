(* Proof/BloomP.v — the doorkeeper has no false negatives: a hash shown to the filter stays "present" until
   the filter is emptied (reset counter beyond capacity, or growth of the shard map), Insert reports exactly
   what Exist would have answered before it, and nextPowerOfTwo keeps every filter geometry in range. *)
From Coq Require Import ZArith List Bool Lia.
From Coq Require Import ZifyBool.
From Verif Require Import Base.Word64 Model.Bloom Proof.Nibble.
Import ListNotations.
Open Scope Z_scope.
Ltac Zify.zify_post_hook ::= Z.div_mod_to_equations.

(* ---- list helpers (local copies) *)
Lemma b_upd_nat_length l i v : length (upd_nat l i v) = length l.
Proof. revert i; induction l as [|x l IH]; intros [|i]; cbn; auto. Qed.
Lemma b_nth_upd_same l i v : (i < length l)%nat -> nth i (upd_nat l i v) 0 = v.
Proof. revert i; induction l as [|x l IH]; intros [|i] H; cbn in *; try lia; auto. apply IH; lia. Qed.
Lemma b_nth_upd_other l i j v : i <> j -> nth j (upd_nat l i v) 0 = nth j l 0.
Proof. revert i j; induction l as [|x l IH]; intros [|i] [|j] H; cbn; auto; try congruence. Qed.
Lemma b_updZ_length l i v : length (updZ l i v) = length l.
Proof. unfold updZ. destruct (i <? 0); [reflexivity|apply b_upd_nat_length]. Qed.
Lemma b_nthZ_updZ_same l i v : 0 <= i < Z.of_nat (length l) -> nthZ (updZ l i v) i = v.
Proof. intro H. unfold nthZ, updZ. destruct (Z.ltb_spec i 0); [lia|]. apply b_nth_upd_same. lia. Qed.
Lemma b_nthZ_updZ_other l i j v : 0 <= i -> 0 <= j -> i <> j -> nthZ (updZ l i v) j = nthZ l j.
Proof. intros Hi Hj N. unfold nthZ, updZ. destruct (Z.ltb_spec i 0); [lia|]. apply b_nth_upd_other. lia. Qed.

(* ---- one bit *)
Definition bset (b : list Z) (bit : Z) : bool := Z.testbit (nthZ b (bit / 64)) (bit mod 64).

Lemma testbit_1 n : Z.testbit 1 n = (n =? 0).
Proof. destruct n as [|p|p]; [reflexivity| |reflexivity]. destruct p; reflexivity. Qed.
Lemma testbit_b2z c n : 0 <= n -> Z.testbit (b2z c) n = c && (n =? 0).
Proof. intro H. destruct c; cbn [b2z andb]; [apply testbit_1|apply Z.testbit_0_l]. Qed.

Lemma shr_land_bit w s : 0 <= s -> Z.shiftr (Z.land w (Z.shiftl 1 s)) s = b2z (Z.testbit w s).
Proof.
  intro Hs. apply Z.bits_inj'. intros n Hn.
  rewrite Z.shiftr_spec, Z.land_spec, Z.shiftl_spec, testbit_b2z by lia.
  replace (n + s - s) with n by lia. rewrite testbit_1.
  destruct (Z.eqb_spec n 0) as [->|N]; [rewrite Z.add_0_l, !andb_true_r; reflexivity|rewrite !andb_false_r; reflexivity].
Qed.

Lemma bv_get_spec b bit : 0 <= bit -> bv_get b bit = b2z (bset b bit).
Proof. intro H. unfold bv_get, bset. apply shr_land_bit. lia. Qed.
Lemma bv_getset_snd b bit : snd (bv_getset b bit) = bv_get b bit.
Proof. reflexivity. Qed.
Lemma bv_getset_len b bit : length (fst (bv_getset b bit)) = length b.
Proof. apply b_updZ_length. Qed.
Lemma bset_getset b bit bit' : 0 <= bit -> 0 <= bit' -> bit / 64 < Z.of_nat (length b) ->
  bset (fst (bv_getset b bit)) bit' = (bit' =? bit) || bset b bit'.
Proof.
  intros H H' Hr. unfold bset, bv_getset. cbn [fst].
  destruct (Z.eq_dec (bit' / 64) (bit / 64)) as [E|N].
  - rewrite E, b_nthZ_updZ_same by lia. rewrite Z.lor_spec, Z.shiftl_spec by lia. rewrite testbit_1.
    rewrite orb_comm. f_equal.
    pose proof (Z.div_mod bit 64 ltac:(lia)) as D. pose proof (Z.div_mod bit' 64 ltac:(lia)) as D'. rewrite E in D'.
    destruct (Z.eqb_spec bit' bit) as [->|N]; [rewrite Z.sub_diag; reflexivity|].
    remember (bit mod 64) as r. remember (bit' mod 64) as r'. remember (bit / 64) as q.
    destruct (Z.eqb_spec (r' - r) 0); [lia|reflexivity].
  - rewrite b_nthZ_updZ_other by lia. destruct (Z.eqb_spec bit' bit) as [->|]; [contradiction|reflexivity].
Qed.

(* ---- filters whose probes stay inside the bit vector *)
Definition WF (d : bloom) : Prop :=
  0 < bf_m d <= 4294967296 /\ bf_m d <= 64 * Z.of_nat (length (bf_words d)) /\ 0 <= bf_k d.

Lemma probe_range d h i : WF d -> 0 <= probe d h i < bf_m d.
Proof.
  intros (Hm & _). unfold probe. set (x := w32 (w32 h + w32 (i * w32 (Z.shiftr (w64 h) 32)))).
  assert (0 <= x) by (unfold x, w32; lia).
  assert (Em : w32 (bf_m d - 1) = bf_m d - 1) by (unfold w32; apply Z.mod_small; lia).
  rewrite Em. split; [apply Z.land_nonneg; lia|]. pose proof (land_le_r x (bf_m d - 1) ltac:(lia) ltac:(lia)). lia.
Qed.
Lemma probe_word d h i : WF d -> probe d h i / 64 < Z.of_nat (length (bf_words d)).
Proof. intro W. pose proof (probe_range d h i W). destruct W as (_ & Hl & _). lia. Qed.

Lemma land_b2z a b : Z.land (b2z a) (b2z b) = b2z (a && b).
Proof. destruct a, b; reflexivity. Qed.
Lemma b2z_1 a : b2z a = 1 <-> a = true.
Proof. destruct a; cbn; split; intro; try reflexivity; try discriminate. Qed.

(* Exist: the conjunction of the probed bits *)
Lemma exist_loop_spec d h : WF d -> forall n i ob, 0 <= i ->
  (exist_loop d h i n (b2z ob) = 1 <->
   ob = true /\ forall j, i <= j < i + Z.of_nat n -> bset (bf_words d) (probe d h j) = true).
Proof.
  intro W. induction n as [|n IH]; intros i ob Hi; cbn [exist_loop].
  - rewrite b2z_1. split; [intro H; split; [exact H|intros j Hj; lia]|tauto].
  - rewrite bv_get_spec by (apply probe_range, W). rewrite land_b2z, IH by lia. rewrite andb_true_iff. split.
    + intros ((Ho & Hb) & Hr). split; [exact Ho|]. intros j Hj. destruct (Z.eq_dec j i) as [->|N]; [exact Hb|apply Hr; lia].
    + intros (Ho & Hr). split; [split; [exact Ho|apply Hr; lia]|intros j Hj; apply Hr; lia].
Qed.

Lemma exist_spec d h : WF d ->
  (bf_exist d h = true <-> forall j, 0 <= j < bf_k d -> bset (bf_words d) (probe d h j) = true).
Proof.
  intro W. unfold bf_exist. rewrite Z.eqb_eq. change 1 with (b2z true) at 1.
  rewrite (exist_loop_spec d h W _ 0 true) by lia. destruct W as (_ & _ & Hk). rewrite Z2Nat.id by lia.
  split; [intros (_ & H); exact H|intro H; split; [reflexivity|exact H]].
Qed.

(* Insert: sets every probed bit and nothing else; its answer is what Exist would have said *)
Definition ext_eq (b b' : list Z) : Prop := forall bit, 0 <= bit -> bset b' bit = bset b bit.

Lemma insert_loop_spec d h : WF d -> forall n i b ob, 0 <= i -> length b = length (bf_words d) ->
  let r := insert_loop d h i n b (b2z ob) in
  length (fst r) = length b /\
  (forall bit, 0 <= bit -> (bset (fst r) bit = true <-> bset b bit = true \/ exists j, i <= j < i + Z.of_nat n /\ probe d h j = bit)) /\
  (snd r = 1 <-> ob = true /\ forall j, i <= j < i + Z.of_nat n -> bset b (probe d h j) = true).
Proof.
  intro W. induction n as [|n IH]; intros i b ob Hi Hl; cbn [insert_loop].
  - cbn [fst snd]. split; [reflexivity|]. split.
    + intros bit Hb. split; [tauto|]. intros [H|(j & Hj & _)]; [exact H|lia].
    + rewrite b2z_1. split; [intro H; split; [exact H|intros j Hj; lia]|tauto].
  - pose proof (probe_range d h i W) as Hp. pose proof (probe_word d h i W) as Hw. rewrite <- Hl in Hw.
    destruct (bv_getset b (probe d h i)) as [b1 x] eqn:Eg.
    assert (E1 : b1 = fst (bv_getset b (probe d h i))) by (rewrite Eg; reflexivity).
    assert (Ex : x = b2z (bset b (probe d h i))) by (rewrite <- bv_get_spec by lia; rewrite <- bv_getset_snd, Eg; reflexivity).
    assert (Hl1 : length b1 = length b) by (rewrite E1; apply bv_getset_len).
    rewrite Ex, land_b2z. specialize (IH (i + 1) b1 (ob && bset b (probe d h i)) ltac:(lia) ltac:(lia)).
    cbv zeta in IH. destruct IH as (L & S & O). split; [lia|]. split.
    + intros bit Hb. rewrite (S bit Hb), E1, bset_getset by lia. rewrite orb_true_iff, Z.eqb_eq. split.
      * intros [[H|H]|(j & Hj & Pj)]; [right; exists i; split; [lia|congruence]|left; exact H|right; exists j; split; [lia|exact Pj]].
      * intros [H|(j & Hj & Pj)]; [left; right; exact H|]. destruct (Z.eq_dec j i) as [->|N]; [left; left; congruence|right; exists j; split; [lia|exact Pj]].
    + rewrite O, andb_true_iff. split.
      * intros ((Ho & Hb) & Hr). split; [exact Ho|]. intros j Hj. destruct (Z.eq_dec j i) as [->|N]; [exact Hb|].
        specialize (Hr j ltac:(lia)). rewrite E1, bset_getset in Hr by (try lia; apply probe_range, W).
        apply orb_true_iff in Hr. destruct Hr as [Hr|Hr]; [apply Z.eqb_eq in Hr; rewrite Hr; exact Hb|exact Hr].
      * intros (Ho & Hr). split; [split; [exact Ho|apply Hr; lia]|]. intros j Hj. rewrite E1, bset_getset by (try lia; apply probe_range, W).
        rewrite (Hr j ltac:(lia)). apply orb_true_r.
Qed.

Lemma insert_WF d h : WF d -> WF (fst (bf_insert d h)).
Proof.
  intro W. unfold bf_insert. pose proof (insert_loop_spec d h W (Z.to_nat (bf_k d)) 0 (bf_words d) true ltac:(lia) eq_refl) as S.
  cbv zeta in S. change (b2z true) with 1 in S. destruct (insert_loop d h 0 (Z.to_nat (bf_k d)) (bf_words d) 1) as [b o].
  cbn [fst snd] in *. destruct S as (L & _). destruct W as (A & B & C). unfold WF. cbn. rewrite L. auto.
Qed.

Lemma insert_bits d h : WF d -> forall bit, 0 <= bit ->
  (bset (bf_words (fst (bf_insert d h))) bit = true <->
   bset (bf_words d) bit = true \/ exists j, 0 <= j < bf_k d /\ probe d h j = bit).
Proof.
  intros W bit Hb. unfold bf_insert. pose proof (insert_loop_spec d h W (Z.to_nat (bf_k d)) 0 (bf_words d) true ltac:(lia) eq_refl) as S.
  cbv zeta in S. change (b2z true) with 1 in S. destruct (insert_loop d h 0 (Z.to_nat (bf_k d)) (bf_words d) 1) as [b o].
  cbn [fst snd bf_words] in *. destruct S as (_ & S & _). rewrite (S bit Hb). destruct W as (_ & _ & Hk). rewrite Z2Nat.id by lia. reflexivity.
Qed.

Lemma insert_geom d h : bf_m (fst (bf_insert d h)) = bf_m d /\ bf_k (fst (bf_insert d h)) = bf_k d /\ bf_cap (fst (bf_insert d h)) = bf_cap d.
Proof. unfold bf_insert. destruct (insert_loop _ _ _ _ _ _). cbn. auto. Qed.

Lemma probe_geom d d' h j : bf_m d' = bf_m d -> probe d' h j = probe d h j.
Proof. intro E. unfold probe. rewrite E. reflexivity. Qed.

(* Insert's answer = Exist before the insert *)
Lemma insert_reports_exist d h : WF d -> snd (bf_insert d h) = bf_exist d h.
Proof.
  intro W. unfold bf_insert. pose proof (insert_loop_spec d h W (Z.to_nat (bf_k d)) 0 (bf_words d) true ltac:(lia) eq_refl) as S.
  cbv zeta in S. change (b2z true) with 1 in S. destruct (insert_loop d h 0 (Z.to_nat (bf_k d)) (bf_words d) 1) as [b o].
  cbn [fst snd] in *. destruct S as (_ & _ & O). destruct W as (Wa & Wb & Hk). rewrite Z2Nat.id in O by lia.
  apply eq_true_iff_eq. rewrite Z.eqb_eq, O, (exist_spec d h (conj Wa (conj Wb Hk))). split; [intros (_ & H); exact H|intro H; split; [reflexivity|exact H]].
Qed.

(* no false negatives *)
Lemma insert_then_exist d h : WF d -> bf_exist (fst (bf_insert d h)) h = true.
Proof.
  intro W. pose proof (insert_geom d h) as (Em & Ek & _). apply (exist_spec _ h (insert_WF d h W)). intros j Hj.
  rewrite Ek in Hj. rewrite (probe_geom d _ h j Em). apply (insert_bits d h W); [apply probe_range, W|]. right. exists j. auto.
Qed.
Lemma insert_keeps d h h' : WF d -> bf_exist d h' = true -> bf_exist (fst (bf_insert d h)) h' = true.
Proof.
  intros W H. pose proof (insert_geom d h) as (Em & Ek & _). apply (exist_spec _ h' (insert_WF d h W)). intros j Hj.
  rewrite Ek in Hj. rewrite (probe_geom d _ h' j Em). apply (insert_bits d h W); [apply probe_range, W|]. left.
  apply (exist_spec d h' W); assumption.
Qed.

(* Reset leaves nothing present (K >= 1) *)
Lemma nth_map0 (l : list Z) i : nth i (map (fun _ => 0) l) 0 = 0.
Proof. revert i; induction l as [|x l IH]; intros [|i]; cbn; auto. Qed.
Lemma reset_forgets d h : WF d -> 1 <= bf_k d -> bf_exist (bf_reset d) h = false.
Proof.
  intros W Hk. assert (W' : WF (bf_reset d)) by (destruct W as (A & B & C); unfold WF, bf_reset; cbn; rewrite map_length; auto).
  destruct (bf_exist (bf_reset d) h) eqn:E0; [|reflexivity]. pose proof (proj1 (exist_spec _ h W') E0) as E.
  specialize (E 0 ltac:(cbn; lia)). unfold bset, bf_reset, nthZ in E. cbn [bf_words] in E. rewrite nth_map0, Z.testbit_0_l in E. discriminate.
Qed.

(* ---- nextPowerOfTwo: 0 or a power of two up to 2^31 *)
Definition reach (x y R : Z) : Prop :=
  forall j, 0 <= j -> (Z.testbit y j = true <-> exists t, 0 <= t <= R /\ Z.testbit x (j + t) = true).
Lemma reach0 x : reach x x 0.
Proof. intros j Hj. split; [intro H; exists 0; rewrite Z.add_0_r; split; [lia|exact H]|intros (t & Ht & H); replace (j + t) with j in H by lia; exact H]. Qed.
Lemma reach_step x y R : 0 <= R -> reach x y R -> reach x (Z.lor y (Z.shiftr y (R + 1))) (2 * R + 1).
Proof.
  intros HR P j Hj. rewrite Z.lor_spec, Z.shiftr_spec, orb_true_iff, (P j Hj), (P (j + (R + 1)) ltac:(lia)) by lia. split.
  - intros [(t & Ht & H)|(t & Ht & H)]; [exists t; split; [lia|exact H]|exists (R + 1 + t); split; [lia|replace (j + (R + 1 + t)) with (j + (R + 1) + t) by lia; exact H]].
  - intros (t & Ht & H). destruct (Z.le_gt_cases t R); [left; exists t; split; [lia|exact H]|right; exists (t - (R + 1)); split; [lia|replace (j + (R + 1) + (t - (R + 1))) with (j + t) by lia; exact H]].
Qed.

Definition smear (n : Z) : Z :=
  let n := Z.lor n (Z.shiftr n 1) in
  let n := Z.lor n (Z.shiftr n 2) in
  let n := Z.lor n (Z.shiftr n 4) in
  let n := Z.lor n (Z.shiftr n 8) in
  Z.lor n (Z.shiftr n 16).
Lemma np2_smear i : np2 i = w32 (smear (w32 (i - 1)) + 1).
Proof. reflexivity. Qed.

Lemma smear_ones x : 0 < x < 4294967296 -> smear x = Z.ones (Z.log2 x + 1).
Proof.
  intro Hx. assert (P : reach x (smear x) 31).
  { unfold smear. pose proof (reach_step x _ 0 ltac:(lia) (reach0 x)) as P1. cbn in P1.
    pose proof (reach_step x _ 1 ltac:(lia) P1) as P2. cbn in P2.
    pose proof (reach_step x _ 3 ltac:(lia) P2) as P3. cbn in P3.
    pose proof (reach_step x _ 7 ltac:(lia) P3) as P4. cbn in P4.
    exact (reach_step x _ 15 ltac:(lia) P4). }
  assert (HL : 0 <= Z.log2 x < 32).
  { split; [apply Z.log2_nonneg|]. apply Z.log2_lt_pow2; lia. }
  apply Z.bits_inj'. intros j Hj. rewrite Z.testbit_ones_nonneg by lia.
  apply eq_true_iff_eq. rewrite (P j Hj), Z.ltb_lt. split.
  - intros (t & Ht & H). destruct (Z.le_gt_cases (j + t) (Z.log2 x)); [lia|]. rewrite Z.bits_above_log2 in H by lia. discriminate.
  - intro H. exists (Z.log2 x - j). split; [lia|]. replace (j + (Z.log2 x - j)) with (Z.log2 x) by lia. apply Z.bit_log2. lia.
Qed.

Lemma np2_range i : np2 i = 0 \/ exists k, 0 <= k <= 31 /\ np2 i = 2 ^ k.
Proof.
  rewrite np2_smear. set (x := w32 (i - 1)). assert (Hx : 0 <= x < 4294967296) by (unfold x, w32; lia).
  destruct (Z.eq_dec x 0) as [->|N].
  - right. exists 0. split; [lia|reflexivity].
  - rewrite smear_ones by lia. rewrite Z.ones_equiv.
    assert (HL : 0 <= Z.log2 x < 32) by (split; [apply Z.log2_nonneg|apply Z.log2_lt_pow2; lia]).
    replace (Z.pred (2 ^ (Z.log2 x + 1)) + 1) with (2 ^ (Z.log2 x + 1)) by lia.
    destruct (Z.eq_dec (Z.log2 x) 31) as [E|NE].
    + left. rewrite E. reflexivity.
    + right. exists (Z.log2 x + 1). split; [lia|]. unfold w32. apply Z.mod_small.
      split; [apply Z.pow_nonneg; lia|]. change 4294967296 with (2 ^ 32). apply Z.pow_lt_mono_r; lia.
Qed.
Lemma np2_le i : 0 <= np2 i <= 2147483648.
Proof.
  destruct (np2_range i) as [->|(k & Hk & ->)]; [lia|]. split; [apply Z.pow_nonneg; lia|].
  change 2147483648 with (2 ^ 31). apply Z.pow_le_mono_r; lia.
Qed.

Lemma zeros_length n : length (zeros n) = Z.to_nat n.
Proof. unfold zeros. apply repeat_length. Qed.

Lemma ensure_WF d c : (c <= bf_cap d -> WF d) -> WF (bf_ensure d c).
Proof.
  intro W. unfold bf_ensure. destruct (Z.leb_spec c (bf_cap d)); [apply W; assumption|].
  set (cap := np2 c). set (m0 := np2 (w32 (cap * 9585058377367439 / 1000000000000000))).
  pose proof (np2_le (w32 (cap * 9585058377367439 / 1000000000000000))) as Hm0. fold m0 in Hm0.
  set (m := if m0 <? 1024 then 1024 else m0).
  assert (Hm : 1024 <= m <= 2147483648) by (unfold m; destruct (Z.ltb_spec m0 1024); lia).
  set (k := w32 (7 * m / (10 * cap))). unfold WF. cbn [bf_m bf_k bf_words].
  split; [lia|]. split.
  - unfold newbv. rewrite zeros_length. assert (w32 (m + 63) = m + 63) by (unfold w32; apply Z.mod_small; lia). lia.
  - assert (0 <= k) by (unfold k, w32; lia). destruct (k <? 2); lia.
Qed.

Lemma new_WF : WF bf_new.
Proof. apply ensure_WF. cbn. lia. Qed.

(* ---- the shard's doorkeeper over histories, with the hashes shown to the filter since it was last emptied *)
Inductive dop := DAttempt (h : Z) | DRemove.

Definition door_resets (d : door) : bool := bf_cap (dr_bf d) <? dr_counter d.

Definition door_grows (d : door) (admitted : bool) : bool :=
  admitted && (bf_cap (dr_bf d) <? 20 * (dr_len d + 1)).

Fixpoint door_hist (ops : list dop) (d : door) (seen : list Z) : door * list Z :=
  match ops with
  | [] => (d, seen)
  | DAttempt h :: r =>
      let '(d', v) := door_attempt d h in
      door_hist r d' (if door_grows d v then [] else h :: (if door_resets d then [] else seen))
  | DRemove :: r => door_hist r (door_remove d) seen
  end.

Definition DI (d : door) (seen : list Z) : Prop :=
  WF (dr_bf d) /\ forall h, In h seen -> bf_exist (dr_bf d) h = true.

Lemma reset_WF f : WF f -> WF (bf_reset f).
Proof. intros (A & B & C). unfold WF, bf_reset. cbn. rewrite map_length. auto. Qed.

Lemma attempt_DI d seen h : DI d seen ->
  DI (fst (door_attempt d h)) (if door_grows d (snd (door_attempt d h)) then [] else h :: (if door_resets d then [] else seen)).
Proof.
  intros (W & S). unfold door_attempt, door_resets, door_grows.
  set (d1 := if bf_cap (dr_bf d) <? dr_counter d then mkDoor (bf_reset (dr_bf d)) 0 (dr_len d) else d).
  set (seen1 := if bf_cap (dr_bf d) <? dr_counter d then [] else seen).
  assert (I1 : DI d1 seen1 /\ bf_cap (dr_bf d1) = bf_cap (dr_bf d) /\ dr_len d1 = dr_len d).
  { unfold d1, seen1. destruct (bf_cap (dr_bf d) <? dr_counter d); [|split; [split; assumption|split; reflexivity]].
    split; [split; [apply reset_WF, W|intros h' []]|split; reflexivity]. }
  destruct I1 as ((W1 & S1) & C1 & L1).
  pose proof (insert_WF (dr_bf d1) h W1) as Wf. pose proof (insert_then_exist (dr_bf d1) h W1) as Eh.
  pose proof (insert_geom (dr_bf d1) h) as (_ & _ & Ec).
  pose proof (fun h' => insert_keeps (dr_bf d1) h h' W1) as Kp.
  destruct (bf_insert (dr_bf d1) h) as [f hit] eqn:Ei. cbn [fst snd] in *.
  assert (Base : WF f /\ forall h', In h' (h :: seen1) -> bf_exist f h' = true).
  { split; [exact Wf|]. intros h' [<-|Hin]; [exact Eh|]. apply Kp, S1, Hin. }
  destruct hit; cbn [fst snd dr_bf andb].
  - rewrite Ec, C1, L1. destruct (bf_cap (dr_bf d) <? 20 * (dr_len d + 1)).
    + split; [apply ensure_WF; intros _; exact Wf|intros h' []].
    + exact Base.
  - exact Base.
Qed.

Lemma remove_DI d seen : DI d seen -> DI (door_remove d) seen.
Proof. intro H. exact H. Qed.

Lemma hist_DI ops : forall d seen, DI d seen -> DI (fst (door_hist ops d seen)) (snd (door_hist ops d seen)).
Proof.
  induction ops as [|o r IH]; intros d seen H; cbn [door_hist]; [exact H|]. destruct o as [h|].
  - pose proof (attempt_DI d seen h H) as A. destruct (door_attempt d h) as [d' v]. cbn [fst snd] in A. apply IH, A.
  - apply IH, remove_DI, H.
Qed.

Lemma new_DI : DI door_new [].
Proof. split; [exact new_WF|intros h []]. Qed.

(* the property: after any history, a hash shown to the filter since it was last emptied is admitted, unless
   this very attempt empties the filter first (more than Capacity first sightings since the last emptying) *)
Lemma seen_passes ops h :
  let '(d, seen) := door_hist ops door_new [] in
  In h seen -> door_resets d = false -> snd (door_attempt d h) = true.
Proof.
  pose proof (hist_DI ops door_new [] new_DI) as (W & S). destruct (door_hist ops door_new []) as [d seen]. cbn [fst snd] in *.
  intros Hin Hr. unfold door_attempt. unfold door_resets in Hr. rewrite Hr.
  pose proof (insert_reports_exist (dr_bf d) h W) as R. destruct (bf_insert (dr_bf d) h) as [f hit]. cbn [snd] in R.
  rewrite R, (S h Hin). reflexivity.
Qed.

Lemma hist_in_range ops :
  let '(d, _) := door_hist ops door_new [] in
  forall h i, 0 <= probe (dr_bf d) h i < bf_m (dr_bf d) /\ probe (dr_bf d) h i / 64 < Z.of_nat (length (bf_words (dr_bf d))).
Proof.
  pose proof (hist_DI ops door_new [] new_DI) as (W & _). destruct (door_hist ops door_new []) as [d seen].
  intros h i. split; [apply probe_range, W|apply probe_word, W].
Qed.

(* a rejected attempt changes the filter and the counter only: the map size is untouched *)
Lemma rejected_keeps_len d h : snd (door_attempt d h) = false -> dr_len (fst (door_attempt d h)) = dr_len d.
Proof.
  unfold door_attempt. destruct (bf_cap (dr_bf d) <? dr_counter d); destruct (bf_insert _ h) as [f hit]; destruct hit; cbn; intro H; try discriminate; reflexivity.
Qed.

(* the first sighting after an emptying is rejected (K >= 1): the doorkeeper does keep one-hit wonders out *)
Lemma first_sighting_rejected d h : WF (dr_bf d) -> 1 <= bf_k (dr_bf d) -> door_resets d = true -> snd (door_attempt d h) = false.
Proof.
  intros W Hk Hr. unfold door_attempt. unfold door_resets in Hr. rewrite Hr. cbn [dr_bf].
  pose proof (insert_reports_exist (bf_reset (dr_bf d)) h (reset_WF _ W)) as R. destruct (bf_insert (bf_reset (dr_bf d)) h) as [f hit]. cbn [snd] in R.
  rewrite R, reset_forgets by assumption. reflexivity.
Qed.

Example door_example :
  let '(d1, v1) := door_attempt door_new 1311768467463790320 in
  let '(d2, v2) := door_attempt d1 1311768467463790320 in
  let '(d3, v3) := door_attempt d2 81985529216486895 in
  (v1, v2, v3, dr_counter d3, dr_len d3) = (false, true, false, 2, 1).
Proof. vm_compute. reflexivity. Qed.
