(* Proof/RBMutexP.v — the reader-biased lock excludes writers from readers under every schedule *)
From Coq Require Import ZArith List Bool Lia.
From Coq Require Import ZifyBool.
From Verif Require Import Base.Word64 Model.RBMutex.
Import ListNotations.
Open Scope Z_scope.
Ltac Zify.zify_post_hook ::= Z.div_mod_to_equations.

(* ---------- lists indexed by Z ---------- *)
Lemma upd_nat_length l i v : length (upd_nat l i v) = length l.
Proof. revert i. induction l as [|a l IH]; intros [|i]; cbn; auto. Qed.
Lemma nth_upd_nat_same l i v : (i < length l)%nat -> nth i (upd_nat l i v) 0 = v.
Proof.
  revert i. induction l as [|a l IH]; intros i H; [cbn in H; lia|]. destruct i as [|i]; [reflexivity|]. cbn [upd_nat nth]. apply IH. cbn in H. lia.
Qed.
Lemma nth_upd_nat_other l i j v : i <> j -> nth j (upd_nat l i v) 0 = nth j l 0.
Proof.
  revert i j. induction l as [|a l IH]; intros i j H; [destruct i, j; reflexivity|].
  destruct i as [|i], j as [|j]; try reflexivity; [congruence|]. cbn [upd_nat nth]. apply IH. congruence.
Qed.

Lemma updZ_length l i v : length (updZ l i v) = length l.
Proof. unfold updZ. destruct (i <? 0); [reflexivity|apply upd_nat_length]. Qed.
Lemma nthZ_updZ_same l i v : 0 <= i < Z.of_nat (length l) -> nthZ (updZ l i v) i = v.
Proof. intro H. unfold nthZ, updZ. destruct (Z.ltb_spec i 0); [lia|]. apply nth_upd_nat_same. lia. Qed.
Lemma nthZ_updZ_other l i j v : 0 <= i -> 0 <= j -> i <> j -> nthZ (updZ l i v) j = nthZ l j.
Proof. intros Hi Hj N. unfold nthZ, updZ. destruct (Z.ltb_spec i 0); [lia|]. apply nth_upd_nat_other. lia. Qed.

(* ---------- thread table ---------- *)
Lemma tpc_set r t p t' : tpc (with_pc r t p) t' = if t' =? t then p else tpc r t'.
Proof.
  unfold tpc, with_pc, set_thr. cbn [rb_thr find fst snd]. rewrite (Z.eqb_sym t t'). destruct (Z.eqb_spec t' t) as [->|N]; [reflexivity|].
  induction (rb_thr r) as [|[a q] l IH]; [reflexivity|]. cbn [filter find fst]. destruct (Z.eqb_spec a t) as [->|Na]; cbn [negb].
  - destruct (Z.eqb_spec t t'); [congruence|exact IH].
  - cbn [find fst]. destruct (a =? t'); [reflexivity|exact IH].
Qed.

Lemma nodup_set l t p : NoDup (map fst l) -> NoDup (map fst (set_thr l t p)).
Proof.
  intro H. unfold set_thr. cbn [map fst]. constructor.
  - intro Hi. apply in_map_iff in Hi. destruct Hi as ([a q] & E & Hf). apply filter_In in Hf. cbn in *. lia.
  - induction l as [|[a q] l IH]; [constructor|]. cbn [map fst] in H. inversion H as [|? ? Ha Hd]; subst. cbn [filter fst].
    destruct (negb (a =? t)); [|apply IH, Hd]. cbn [map fst]. constructor; [|apply IH, Hd].
    intro Hi. apply Ha. apply in_map_iff in Hi. destruct Hi as (x & E & Hf). apply filter_In in Hf. apply in_map_iff. exists x. tauto.
Qed.

(* who holds a unit of slot j *)
Definition holds (n : Z) (p : rpc) (j : Z) : bool :=
  match p with R4 s | R5 s | RFast s => s mod n =? j | _ => false end.
Definition hc (n : Z) (l : list (Z * rpc)) (j : Z) : Z := fold_right (fun x a => b2z (holds n (snd x) j) + a) 0 l.

Lemma hc_filter_absent n l t j : (forall x, In x l -> fst x <> t) -> hc n (filter (fun x => negb (fst x =? t)) l) j = hc n l j.
Proof.
  induction l as [|[a q] l IH]; intro H; [reflexivity|]. cbn [filter fst]. destruct (Z.eqb_spec a t) as [E|N].
  - exfalso. apply (H (a, q)); [left; reflexivity|exact E].
  - cbn [negb hc fold_right snd]. fold (hc n (filter (fun x => negb (fst x =? t)) l) j). fold (hc n l j). rewrite IH; [reflexivity|]. intros x Hx. apply H. right. exact Hx.
Qed.

Lemma hc_set n l t p j : NoDup (map fst l) ->
  hc n (set_thr l t p) j = hc n l j - b2z (holds n (match find (fun x => fst x =? t) l with Some x => snd x | None => PIdle end) j) + b2z (holds n p j).
Proof.
  intro H. unfold set_thr. cbn [hc fold_right snd]. fold (hc n (filter (fun x => negb (fst x =? t)) l) j).
  induction l as [|[a q] l IH]; [cbn; lia|]. cbn [map fst] in H. inversion H as [|? ? Ha Hd]; subst. cbn [filter find fst].
  destruct (Z.eqb_spec a t) as [->|N]; cbn [negb snd].
  - rewrite hc_filter_absent. 2:{ intros x Hx E. apply Ha. rewrite <- E. apply in_map, Hx. }
    cbn [hc fold_right snd]. fold (hc n l j). lia.
  - cbn [hc fold_right snd]. fold (hc n (filter (fun x => negb (fst x =? t)) l) j). fold (hc n l j). specialize (IH Hd). lia.
Qed.

(* ---------- the invariant ---------- *)
Definition wpc (p : rpc) : bool := match p with L2 | L3 | L4 _ | WCS => true | _ => false end.
Definition rdpc (p : rpc) : bool := match p with R7 | R8 | RSlow => true | _ => false end.

Definition RBInv (r : rbm) : Prop :=
  1 <= rb_n r /\ Z.of_nat (length (rb_slots r)) = rb_n r /\
  NoDup (map fst (rb_thr r)) /\
  (forall j, 0 <= j < rb_n r -> nthZ (rb_slots r) j = hc (rb_n r) (rb_thr r) j) /\
  (forall t, wpc (tpc r t) = true <-> rb_wr r = Some t) /\
  (forall t, In t (rb_rds r) <-> rdpc (tpc r t) = true) /\
  ((exists w, rb_wr r = Some w) -> rb_rds r = []) /\
  (forall t i, tpc r t = L4 i -> 0 <= i < rb_n r) /\
  (forall t, (tpc r t = WCS \/ exists i, tpc r t = L4 i) -> rb_bias r = false) /\
  (rb_bias r = false -> forall t s, tpc r t = RFast s ->
     exists w i, rb_wr r = Some w /\ tpc r w = L4 i /\ i <= s mod rb_n r).

Definition neutral (p : rpc) : bool :=
  match p with PIdle | R1 | R2 _ _ | R3 _ _ _ | R6 | L1 => true | _ => false end.

Lemma neutral_facts p n j : neutral p = true -> holds n p j = false /\ wpc p = false /\ rdpc p = false /\
  (forall s, p <> RFast s) /\ (forall i, p <> L4 i) /\ p <> WCS.
Proof. destruct p; cbn; intro H; try discriminate; repeat split; intros; discriminate. Qed.

Lemma hc_with_pc r t p j : NoDup (map fst (rb_thr r)) ->
  hc (rb_n r) (rb_thr (with_pc r t p)) j = hc (rb_n r) (rb_thr r) j - b2z (holds (rb_n r) (tpc r t) j) + b2z (holds (rb_n r) p j).
Proof. intro H. unfold with_pc. cbn [rb_thr]. rewrite (hc_set _ _ t p j H). reflexivity. Qed.

(* a step that only moves one thread between pcs that hold nothing *)
Lemma inv_neutral r t p' : RBInv r -> neutral (tpc r t) = true -> neutral p' = true -> RBInv (with_pc r t p').
Proof.
  intros (N & Ln & Nd & B & W & Rd & X & Rg & E & C) Hp Hp'.
  assert (F : forall j, holds (rb_n r) (tpc r t) j = false) by (intro j; apply (neutral_facts _ _ j Hp)).
  assert (F' : forall j, holds (rb_n r) p' j = false) by (intro j; apply (neutral_facts _ _ j Hp')).
  destruct (neutral_facts _ (rb_n r) 0 Hp) as (_ & w0 & r0 & f0 & l0 & c0).
  destruct (neutral_facts _ (rb_n r) 0 Hp') as (_ & w1 & r1 & f1 & l1 & c1).
  unfold RBInv. cbn [with_pc rb_n rb_slots rb_wr rb_rds rb_bias].
  split; [exact N|]. split; [exact Ln|]. split; [apply nodup_set, Nd|]. split.
  { intros j Hj. change (set_thr (rb_thr r) t p') with (rb_thr (with_pc r t p')). rewrite hc_with_pc by exact Nd. rewrite F, F'. cbn. rewrite (B j Hj). lia. }
  split. { intro t'. rewrite tpc_set. destruct (Z.eqb_spec t' t) as [->|Ne]; [|apply W]. rewrite w1. split; [discriminate|]. intro H. apply W in H. congruence. }
  split. { intro t'. rewrite tpc_set. destruct (Z.eqb_spec t' t) as [->|Ne]; [|apply Rd]. rewrite r1. split; [|discriminate]. intro H. apply Rd in H. congruence. }
  split; [exact X|]. split.
  { intros t' i. rewrite tpc_set. destruct (Z.eqb_spec t' t) as [->|Ne]; [intro H; destruct (l1 i H)|apply Rg]. }
  split.
  { intros t'. rewrite tpc_set. destruct (Z.eqb_spec t' t) as [->|Ne]; [|apply E]. intros [H|(i & H)]; [contradiction|destruct (l1 i H)]. }
  intros Hb t' s. rewrite tpc_set. destruct (Z.eqb_spec t' t) as [->|Ne]; [intro H; destruct (f1 s H)|].
  intro H. destruct (C Hb t' s H) as (w & i & Hw & Hl & Hi). exists w, i. split; [exact Hw|]. split; [|exact Hi].
  rewrite tpc_set. destruct (Z.eqb_spec w t) as [->|_]; [destruct (l0 i Hl)|exact Hl].
Qed.

(* the general shape of a step: thread t moves to p', the shared fields change as given *)
Definition step_to (r : rbm) (t : Z) (p' : rpc) (bias' : bool) (slots' : list Z) (wr' : option Z) (rds' : list Z) : rbm :=
  mkRB (rb_n r) bias' slots' wr' rds' (set_thr (rb_thr r) t p').

Lemma tpc_step r t p' b sl w rd t' : tpc (step_to r t p' b sl w rd) t' = if t' =? t then p' else tpc r t'.
Proof. exact (tpc_set r t p' t'). Qed.

Lemma inv_step r t p' bias' slots' wr' rds' : RBInv r ->
  length slots' = length (rb_slots r) ->
  (forall j, 0 <= j < rb_n r -> nthZ slots' j = nthZ (rb_slots r) j - b2z (holds (rb_n r) (tpc r t) j) + b2z (holds (rb_n r) p' j)) ->
  (wpc p' = true <-> wr' = Some t) -> (forall t', t' <> t -> (wr' = Some t' <-> rb_wr r = Some t')) ->
  (In t rds' <-> rdpc p' = true) -> (forall t', t' <> t -> (In t' rds' <-> In t' (rb_rds r))) ->
  ((exists w, wr' = Some w) -> rds' = []) ->
  (forall i, p' = L4 i -> 0 <= i < rb_n r) ->
  ((p' = WCS \/ exists i, p' = L4 i) -> bias' = false) ->
  (bias' = true -> rb_bias r = false -> forall t', t' <> t -> tpc r t' <> WCS /\ forall i, tpc r t' <> L4 i) ->
  (bias' = false -> forall t' s, tpc (step_to r t p' bias' slots' wr' rds') t' = RFast s ->
     exists w i, wr' = Some w /\ tpc (step_to r t p' bias' slots' wr' rds') w = L4 i /\ i <= s mod rb_n r) ->
  RBInv (step_to r t p' bias' slots' wr' rds').
Proof.
  intros (N & Ln & Nd & B & W & Rd & X & Rg & E & C) HL HB HW1 HW2 HR1 HR2 HX HRg HE1 HE2 HC.
  unfold RBInv. cbn [step_to rb_n rb_slots rb_wr rb_rds rb_bias rb_thr].
  split; [exact N|]. split; [rewrite HL; exact Ln|]. split; [apply nodup_set, Nd|]. split.
  { intros j Hj. rewrite (hc_set _ _ t p' j Nd). fold (tpc r t). rewrite (HB j Hj), (B j Hj). lia. }
  split. { intro t'. rewrite tpc_step. destruct (Z.eqb_spec t' t) as [->|Ne]; [exact HW1|]. rewrite (HW2 t' Ne). apply W. }
  split. { intro t'. rewrite tpc_step. destruct (Z.eqb_spec t' t) as [->|Ne]; [exact HR1|]. rewrite (HR2 t' Ne). apply Rd. }
  split; [exact HX|]. split.
  { intros t' i. rewrite tpc_step. destruct (Z.eqb_spec t' t) as [->|Ne]; [apply HRg|apply Rg]. }
  split; [|exact HC].
  intros t'. rewrite tpc_step. destruct (Z.eqb_spec t' t) as [->|Ne]; [exact HE1|].
  intro H. destruct bias' eqn:Eb; [|reflexivity]. exfalso.
  pose proof (E t' H) as Eo. destruct (HE2 eq_refl Eo t' Ne) as (A1 & A2). destruct H as [H|(i & H)]; [exact (A1 H)|exact (A2 i H)].
Qed.

Lemma hc_nonneg n l j : 0 <= hc n l j.
Proof. induction l as [|x l IH]; cbn [hc fold_right]; [lia|]. fold (hc n l j). destruct (holds n (snd x) j); unfold b2z; lia. Qed.

Lemma hc_member n l t p j : In (t, p) l -> holds n p j = true -> 1 <= hc n l j.
Proof.
  induction l as [|x l IH]; intros Hi Hh; [destruct Hi|]. cbn [hc fold_right]. fold (hc n l j). pose proof (hc_nonneg n l j).
  destruct Hi as [->|Hi]; [cbn [snd]; rewrite Hh; unfold b2z; lia|]. specialize (IH Hi Hh). destruct (holds n (snd x) j); unfold b2z; lia.
Qed.

Lemma tpc_in r t : tpc r t <> PIdle -> In (t, tpc r t) (rb_thr r).
Proof.
  unfold tpc. destruct (find _ (rb_thr r)) as [[a q]|] eqn:E; [|congruence]. intros _. apply find_some in E. destruct E as (Hi & Ea). cbn in *. assert (a = t) by lia. subst. exact Hi.
Qed.

Lemma sidx_range r s : 1 <= rb_n r -> 0 <= s mod rb_n r < rb_n r.
Proof. intro H. apply Z.mod_pos_bound. lia. Qed.

(* clause C carries over when the bias and the writer are unchanged, the mover does not start reading
   on the fast path and was not the scanning writer *)
Lemma C_frame r t p' sl rd : RBInv r -> (forall s, p' <> RFast s) -> (forall i, tpc r t <> L4 i) ->
  rb_bias r = false -> forall t' s, tpc (step_to r t p' (rb_bias r) sl (rb_wr r) rd) t' = RFast s ->
  exists w i, rb_wr r = Some w /\ tpc (step_to r t p' (rb_bias r) sl (rb_wr r) rd) w = L4 i /\ i <= s mod rb_n r.
Proof.
  intros (N & Ln & Nd & B & W & Rd & X & Rg & E & C) Hp' Hp Hb t' s. rewrite tpc_step.
  destruct (Z.eqb_spec t' t) as [->|Ne]; [intro H; destruct (Hp' s H)|]. intro H.
  destruct (C Hb t' s H) as (w & i & Hw & Hl & Hi). exists w, i. split; [exact Hw|]. split; [|exact Hi].
  rewrite tpc_step. destruct (Z.eqb_spec w t) as [->|_]; [destruct (Hp i Hl)|exact Hl].
Qed.

Ltac inv_parts H := destruct H as (N & Ln & Nd & B & W & Rd & X & Rg & E & C).

(* the slot arithmetic of a step that changes slot s by d *)
Lemma slots_after r s d j : RBInv r -> 0 <= j < rb_n r ->
  nthZ (updZ (rb_slots r) (s mod rb_n r) (slot r s + d)) j = nthZ (rb_slots r) j + (if s mod rb_n r =? j then d else 0).
Proof.
  intros HI Hj. inv_parts HI. pose proof (sidx_range r s N) as Hs. unfold slot, sidx.
  destruct (Z.eqb_spec (s mod rb_n r) j) as [<-|Ne].
  - rewrite nthZ_updZ_same by lia. reflexivity.
  - rewrite nthZ_updZ_other by lia. lia.
Qed.

(* no reader on the fast path while the bias is off and nobody is scanning *)
Lemma no_fast_reader r t' s : RBInv r -> rb_bias r = false -> tpc r t' = RFast s ->
  exists w i, rb_wr r = Some w /\ tpc r w = L4 i /\ i <= s mod rb_n r.
Proof. intros HI Hb H. inv_parts HI. exact (C Hb t' s H). Qed.

Lemma writer_unique r t w : RBInv r -> wpc (tpc r t) = true -> rb_wr r = Some w -> w = t.
Proof. intros HI H Hw. inv_parts HI. apply W in H. congruence. Qed.

Ltac holds_false := intros; cbn [holds]; reflexivity.

Lemma rb_atomic_inv r t inp : RBInv r -> RBInv (rb_atomic r t inp).
Proof.
  intro HI. pose proof HI as HI0. inv_parts HI. unfold rb_atomic.
  destruct (tpc r t) as [| |s0 k|s0 k v|s|s| | | |s| | | | |i|] eqn:Ep; try exact HI0.
  - (* R1 *) destruct (rb_bias r); apply inv_neutral; auto; rewrite Ep; reflexivity.
  - (* R2 *) apply inv_neutral; auto; rewrite Ep; reflexivity.
  - (* R3 *) destruct (Z.eqb_spec (slot r (s0 + k)) v) as [Ev|Nv].
    + 
      change (RBInv (step_to r t (R4 (s0 + k)) (rb_bias r) (updZ (rb_slots r) (sidx r (s0 + k)) (slot r (s0 + k) + 1)) (rb_wr r) (rb_rds r))).
      apply inv_step; [exact HI0| | | | | | | | | | |].
      { apply updZ_length. }
      { intros j Hj. unfold sidx. rewrite (slots_after r (s0 + k) 1 j HI0 Hj), Ep. cbn [holds]. destruct (_ =? j); unfold b2z; lia. }
      { split; [discriminate|]. intro H. apply W in H. rewrite Ep in H. discriminate. }
      { tauto. }
      { split; [|discriminate]. intro H. apply Rd in H. rewrite Ep in H. discriminate. }
      { tauto. }
      { exact X. }
      { intros i' H; discriminate. }
      { intros [H|(i' & H)]; discriminate. }
      { intros Hb Hb'. congruence. }
      { intro Hb. apply (C_frame r t _ _ _ HI0); [intros s' H; discriminate|intros i' H; rewrite Ep in H; discriminate|exact Hb]. }
    + destruct (k + 1 <? rb_n r); apply inv_neutral; auto; rewrite Ep; reflexivity.
  - (* R4 *) destruct (rb_bias r) eqn:Eb.
    + 
      change (RBInv (step_to r t (RFast s) (rb_bias r) (rb_slots r) (rb_wr r) (rb_rds r))).
      apply inv_step; [exact HI0| | | | | | | | | | |].
      { reflexivity. }
      { intros j Hj. rewrite Ep. cbn [holds]. lia. }
      { split; [discriminate|]. intro H. apply W in H. rewrite Ep in H. discriminate. }
      { tauto. }
      { split; [|discriminate]. intro H. apply Rd in H. rewrite Ep in H. discriminate. }
      { tauto. }
      { exact X. }
      { intros i' H; discriminate. }
      { intros [H|(i' & H)]; discriminate. }
      { intros Hb Hb'. congruence. }
      { intro Hb. congruence. }
    + 
      change (RBInv (step_to r t (R5 s) (rb_bias r) (rb_slots r) (rb_wr r) (rb_rds r))).
      apply inv_step; [exact HI0| | | | | | | | | | |].
      { reflexivity. }
      { intros j Hj. rewrite Ep. cbn [holds]. lia. }
      { split; [discriminate|]. intro H. apply W in H. rewrite Ep in H. discriminate. }
      { tauto. }
      { split; [|discriminate]. intro H. apply Rd in H. rewrite Ep in H. discriminate. }
      { tauto. }
      { exact X. }
      { intros i' H; discriminate. }
      { intros [H|(i' & H)]; discriminate. }
      { intros Hb Hb'. congruence. }
      { intro Hb. apply (C_frame r t _ _ _ HI0); [intros s' H; discriminate|intros i' H; rewrite Ep in H; discriminate|exact Hb]. }
  - (* R5 *)
    change (RBInv (step_to r t (R6) (rb_bias r) (updZ (rb_slots r) (sidx r s) (slot r s + -1)) (rb_wr r) (rb_rds r))).
    apply inv_step; [exact HI0| | | | | | | | | | |].
    { apply updZ_length. }
    { intros j Hj. unfold sidx. rewrite (slots_after r s (-1) j HI0 Hj), Ep. cbn [holds]. destruct (_ =? j); unfold b2z; lia. }
    { split; [discriminate|]. intro H. apply W in H. rewrite Ep in H. discriminate. }
    { tauto. }
    { split; [|discriminate]. intro H. apply Rd in H. rewrite Ep in H. discriminate. }
    { tauto. }
    { exact X. }
    { intros i' H; discriminate. }
    { intros [H|(i' & H)]; discriminate. }
    { intros Hb Hb'. congruence. }
    { intro Hb. apply (C_frame r t _ _ _ HI0); [intros s' H; discriminate|intros i' H; rewrite Ep in H; discriminate|exact Hb]. }
  - (* R6 *) destruct (rb_wr r) as [w|] eqn:Ew; [exact HI0|].
    change (RBInv (step_to r t (R7) (rb_bias r) (rb_slots r) (rb_wr r) (t :: rb_rds r))).
    apply inv_step; [exact HI0| | | | | | | | | | |].
    { reflexivity. }
    { intros j Hj. rewrite Ep. cbn [holds]. lia. }
    { split; [discriminate|]. intro H. rewrite Ew in H. discriminate. }
    { tauto. }
    { split; [reflexivity|]. intros _. left. reflexivity. }
    { intros t' Ne. split; [intros [H|H]; [congruence|exact H]|intro H; right; exact H]. }
    { intros (w & H). rewrite Ew in H. discriminate. }
    { intros i' H; discriminate. }
    { intros [H|(i' & H)]; discriminate. }
    { intros Hb Hb'. congruence. }
    { intro Hb. apply (C_frame r t _ _ _ HI0); [intros s' H; discriminate|intros i' H; rewrite Ep in H; discriminate|exact Hb]. }
  - (* R7 *)
    assert (G : forall p', rdpc p' = true -> (forall s, p' <> RFast s) -> (forall i, p' <> L4 i) -> p' <> WCS -> wpc p' = false ->
                (forall j, holds (rb_n r) p' j = false) -> RBInv (with_pc r t p')).
    { intros p' r1 f1 l1 c1 w1 h1.
      change (RBInv (step_to r t (p') (rb_bias r) (rb_slots r) (rb_wr r) (rb_rds r))).
      apply inv_step; [exact HI0| | | | | | | | | | |].
      { reflexivity. }
      { intros j Hj. rewrite Ep, h1. cbn [holds]. lia. }
      { rewrite w1. split; [discriminate|]. intro H. apply W in H. rewrite Ep in H. discriminate. }
      { tauto. }
      { rewrite r1. split; [reflexivity|]. intros _. apply Rd. rewrite Ep. reflexivity. }
      { tauto. }
      { exact X. }
      { intros i' H. destruct (l1 i' H). }
      { intros [H|(i' & H)]; [contradiction|destruct (l1 i' H)]. }
      { intros Hb Hb'. congruence. }
      { intro Hb. apply (C_frame r t _ _ _ HI0); [exact f1|intros i' H; rewrite Ep in H; discriminate|exact Hb]. } }
    destruct (negb (rb_bias r) && negb (inp =? 0)); apply G; try reflexivity; try (intros; discriminate).
  - (* R8: the bias comes back; no writer can hold rw while this thread holds it for reading *)
    change (RBInv (step_to r t (RSlow) (true) (rb_slots r) (rb_wr r) (rb_rds r))).
    apply inv_step; [exact HI0| | | | | | | | | | |].
    { reflexivity. }
    { intros j Hj. rewrite Ep. cbn [holds]. lia. }
    { split; [discriminate|]. intro H. apply W in H. rewrite Ep in H. discriminate. }
    { tauto. }
    { split; [reflexivity|]. intros _. apply Rd. rewrite Ep. reflexivity. }
    { tauto. }
    { exact X. }
    { intros i' H; discriminate. }
    { intros [H|(i' & H)]; discriminate. }
    { intros _ _ t' Ne. assert (Hin : In t (rb_rds r)) by (apply Rd; rewrite Ep; reflexivity). assert (Nw : rb_wr r = None) by (destruct (rb_wr r) as [w|] eqn:Ew; [rewrite (X (ex_intro _ w eq_refl)) in Hin; destruct Hin|reflexivity]). split; [intro H|intros i' H]; assert (Hw : wpc (tpc r t') = true) by (rewrite H; reflexivity); apply W in Hw; congruence. }
    { discriminate. }
  - (* L1 *) destruct (rb_wr r) as [w|] eqn:Ew; [exact HI0|]. destruct (rb_rds r) as [|x l] eqn:Er; [|exact HI0].
    change (RBInv (step_to r t (L2) (rb_bias r) (rb_slots r) (Some t) (rb_rds r))).
    apply inv_step; [exact HI0| | | | | | | | | | |].
    { reflexivity. }
    { intros j Hj. rewrite Ep. cbn [holds]. lia. }
    { split; reflexivity. }
    { intros t' Ne. rewrite Ew. split; [intro H; inversion H; congruence|discriminate]. }
    { split; [intro H; rewrite Er in H; destruct H|discriminate]. }
    { tauto. }
    { intros _. exact Er. }
    { intros i' H; discriminate. }
    { intros [H|(i' & H)]; discriminate. }
    { intros Hb Hb'. congruence. }
    { intros Hb t' s'. rewrite tpc_step. destruct (Z.eqb_spec t' t); [discriminate|]. intro H. destruct (C Hb t' s' H) as (w & _ & Hw & _). congruence. }
  - (* L2 *) destruct (rb_bias r) eqn:Eb.
    + 
      change (RBInv (step_to r t (L3) (rb_bias r) (rb_slots r) (rb_wr r) (rb_rds r))).
      apply inv_step; [exact HI0| | | | | | | | | | |].
      { reflexivity. }
      { intros j Hj. rewrite Ep. cbn [holds]. lia. }
      { split; [intros _; apply W; rewrite Ep; reflexivity|reflexivity]. }
      { tauto. }
      { split; [|discriminate]. intro H. apply Rd in H. rewrite Ep in H. discriminate. }
      { tauto. }
      { exact X. }
      { intros i' H; discriminate. }
      { intros [H|(i' & H)]; discriminate. }
      { intros Hb Hb'. congruence. }
      { intro Hb. congruence. }
    + 
      change (RBInv (step_to r t (WCS) (rb_bias r) (rb_slots r) (rb_wr r) (rb_rds r))).
      apply inv_step; [exact HI0| | | | | | | | | | |].
      { reflexivity. }
      { intros j Hj. rewrite Ep. cbn [holds]. lia. }
      { split; [intros _; apply W; rewrite Ep; reflexivity|reflexivity]. }
      { tauto. }
      { split; [|discriminate]. intro H. apply Rd in H. rewrite Ep in H. discriminate. }
      { tauto. }
      { exact X. }
      { intros i' H; discriminate. }
      { intros _. exact Eb. }
      { intros Hb Hb'. congruence. }
      { intros Hb t' s'. rewrite tpc_step. destruct (Z.eqb_spec t' t); [discriminate|]. intro H. destruct (no_fast_reader r t' s' HI0 Eb H) as (w & i' & Hw & Hl & _). assert (w = t) by (apply (writer_unique r t w HI0); [rewrite Ep; reflexivity|exact Hw]). subst w. rewrite Ep in Hl. discriminate. }
  - (* L3: the bias goes off; the scan starts at slot 0 *)
    change (RBInv (step_to r t (L4 0) (false) (rb_slots r) (rb_wr r) (rb_rds r))).
    apply inv_step; [exact HI0| | | | | | | | | | |].
    { reflexivity. }
    { intros j Hj. rewrite Ep. cbn [holds]. lia. }
    { split; [intros _; apply W; rewrite Ep; reflexivity|reflexivity]. }
    { tauto. }
    { split; [|discriminate]. intro H. apply Rd in H. rewrite Ep in H. discriminate. }
    { tauto. }
    { exact X. }
    { intros i' H. inversion H. lia. }
    { intros _. reflexivity. }
    { discriminate. }
    { intros _ t' s'. rewrite tpc_step. destruct (Z.eqb_spec t' t); [discriminate|]. intros H. exists t, 0. split; [apply W; rewrite Ep; reflexivity|]. split; [rewrite tpc_step, Z.eqb_refl; reflexivity|apply (sidx_range r s' N)]. }
  - (* L4 *)
    pose proof (Rg t i Ep) as Hi.
    destruct (Z.ltb_spec 0 (slot r i)) as [Busy|Free]; [exact HI0|].
    assert (NoReaderAt : forall t' s, tpc r t' = RFast s -> s mod rb_n r <> i).
    { intros t' s H Es. assert (Hin : In (t', RFast s) (rb_thr r)) by (rewrite <- H; apply tpc_in; rewrite H; discriminate).
      pose proof (hc_member (rb_n r) (rb_thr r) t' (RFast s) i Hin ltac:(cbn [holds]; lia)) as Hc.
      rewrite <- (B i Hi) in Hc. unfold slot, sidx in Free. rewrite (Z.mod_small i) in Free by lia. lia. }
    assert (Wt : rb_wr r = Some t) by (apply W; rewrite Ep; reflexivity).
    assert (Bf : rb_bias r = false) by (apply (E t); right; eauto).
    destruct (Z.ltb_spec (i + 1) (rb_n r)) as [More|Done].
    + 
      change (RBInv (step_to r t (L4 (i + 1)) (rb_bias r) (rb_slots r) (rb_wr r) (rb_rds r))).
      apply inv_step; [exact HI0| | | | | | | | | | |].
      { reflexivity. }
      { intros j Hj. rewrite Ep. cbn [holds]. lia. }
      { split; [intros _; exact Wt|reflexivity]. }
      { tauto. }
      { split; [|discriminate]. intro H. apply Rd in H. rewrite Ep in H. discriminate. }
      { tauto. }
      { exact X. }
      { intros i' H. inversion H. lia. }
      { intros _. exact Bf. }
      { intros Hb Hb'. congruence. }
      { intros Hb t' s'. rewrite tpc_step. destruct (Z.eqb_spec t' t); [discriminate|]. intro H. destruct (C Hb t' s' H) as (w & i' & Hw & Hl & Hle). assert (w = t) by congruence. subst w. rewrite Ep in Hl. inversion Hl. subst i'. exists t, (i + 1). split; [exact Wt|]. split; [rewrite tpc_step, Z.eqb_refl; reflexivity|]. pose proof (NoReaderAt t' s' H). lia. }
    + 
      change (RBInv (step_to r t (WCS) (rb_bias r) (rb_slots r) (rb_wr r) (rb_rds r))).
      apply inv_step; [exact HI0| | | | | | | | | | |].
      { reflexivity. }
      { intros j Hj. rewrite Ep. cbn [holds]. lia. }
      { split; [intros _; exact Wt|reflexivity]. }
      { tauto. }
      { split; [|discriminate]. intro H. apply Rd in H. rewrite Ep in H. discriminate. }
      { tauto. }
      { exact X. }
      { intros i' H; discriminate. }
      { intros _. exact Bf. }
      { intros Hb Hb'. congruence. }
      { intros Hb t' s'. rewrite tpc_step. destruct (Z.eqb_spec t' t); [discriminate|]. intro H. destruct (C Hb t' s' H) as (w & i' & Hw & Hl & Hle). assert (w = t) by congruence. subst w. rewrite Ep in Hl. inversion Hl. subst i'. pose proof (NoReaderAt t' s' H). pose proof (sidx_range r s' N). lia. }
Qed.

Lemma rb_act_inv r a : RBInv r -> RBInv (rb_act r a).
Proof.
  intro HI. pose proof HI as HI0. destruct a as [[t code] arg]. unfold rb_act.
  destruct (Z.eq_dec code 0) as [->|N0].
  { destruct (tpc r t) eqn:Ep; try exact HI. apply inv_neutral; [exact HI|rewrite Ep; reflexivity|reflexivity]. }
  destruct (Z.eq_dec code 1) as [->|N1].
  { inv_parts HI. destruct (tpc r t) as [| |s0 k|s0 k v|s|s| | | |s| | | | |i|] eqn:Ep; try exact HI0.
    - (* RUnlock, fast *)
      change (RBInv (step_to r t PIdle (rb_bias r) (updZ (rb_slots r) (sidx r s) (slot r s + -1)) (rb_wr r) (rb_rds r))).
      apply inv_step; [exact HI0| | | | | | | | | | |].
      { apply updZ_length. }
      { intros j Hj. unfold sidx. rewrite (slots_after r s (-1) j HI0 Hj), Ep. cbn [holds]. destruct (_ =? j); unfold b2z; lia. }
      { split; [discriminate|]. intro H. apply W in H. rewrite Ep in H. discriminate. }
      { tauto. }
      { split; [|discriminate]. intro H. apply Rd in H. rewrite Ep in H. discriminate. }
      { tauto. }
      { exact X. }
      { intros i' H; discriminate. }
      { intros [H|(i' & H)]; discriminate. }
      { intros Hb Hb'. congruence. }
      { intro Hb. apply (C_frame r t _ _ _ HI0); [intros s' H; discriminate|intros i' H; rewrite Ep in H; discriminate|exact Hb]. }
    - (* RUnlock, slow *)
      change (RBInv (step_to r t PIdle (rb_bias r) (rb_slots r) (rb_wr r) (filter (fun x => negb (x =? t)) (rb_rds r)))).
      apply inv_step; [exact HI0| | | | | | | | | | |].
      { reflexivity. }
      { intros j Hj. rewrite Ep. cbn [holds]. lia. }
      { split; [discriminate|]. intro H. apply W in H. rewrite Ep in H. discriminate. }
      { tauto. }
      { split; [|discriminate]. intro H. apply filter_In in H. destruct H as (_ & H). rewrite Z.eqb_refl in H. discriminate. }
      { intros t' Ne. rewrite filter_In. split; [tauto|]. intro H. split; [exact H|]. destruct (Z.eqb_spec t' t); [contradiction|reflexivity]. }
      { intros H. rewrite (X H). reflexivity. }
      { intros i' H; discriminate. }
      { intros [H|(i' & H)]; discriminate. }
      { intros Hb Hb'. congruence. }
      { intro Hb. apply (C_frame r t _ _ _ HI0); [intros s' H; discriminate|intros i' H; rewrite Ep in H; discriminate|exact Hb]. } }
  destruct (Z.eq_dec code 2) as [->|N2].
  { destruct (tpc r t) eqn:Ep; try exact HI. apply inv_neutral; [exact HI|rewrite Ep; reflexivity|reflexivity]. }
  destruct (Z.eq_dec code 3) as [->|N3].
  { inv_parts HI. destruct (tpc r t) eqn:Ep; try exact HI0.
    assert (Wt : rb_wr r = Some t) by (apply W; rewrite Ep; reflexivity).
    assert (Bf : rb_bias r = false) by (apply (E t); left; exact Ep).
    change (RBInv (step_to r t PIdle (rb_bias r) (rb_slots r) None (rb_rds r))).
    apply inv_step; [exact HI0| | | | | | | | | | |].
    { reflexivity. }
    { intros j Hj. rewrite Ep. cbn [holds]. lia. }
    { split; discriminate. }
    { intros t' Ne. rewrite Wt. split; [discriminate|intro H; inversion H; congruence]. }
    { split; [|discriminate]. intro H. apply Rd in H. rewrite Ep in H. discriminate. }
    { tauto. }
    { intros (w & H). discriminate. }
    { intros i' H; discriminate. }
    { intros [H|(i' & H)]; discriminate. }
    { intros Hb Hb'. congruence. }
    { intros Hb t' s'. rewrite tpc_step. destruct (Z.eqb_spec t' t); [discriminate|]. intro H.
      destruct (C Hb t' s' H) as (w & i' & Hw & Hl & _). assert (w = t) by congruence. subst w. rewrite Ep in Hl. discriminate. } }
  destruct (Z.eq_dec code 4) as [->|N4]; [apply rb_atomic_inv, HI|].
  destruct code as [|c|c]; try exact HI; try lia.
  repeat (destruct c as [c|c|]; try exact HI; try lia).
Qed.

Lemma RBInv_init n : 1 <= n -> RBInv (newRB n).
Proof.
  intro H. unfold RBInv, newRB, tpc, zeros. cbn [rb_n rb_slots rb_wr rb_rds rb_bias rb_thr find map hc fold_right].
  split; [exact H|]. split; [rewrite repeat_length; lia|]. split; [constructor|]. split.
  { intros j Hj. unfold nthZ. clear. generalize (Z.to_nat n) (Z.to_nat j). induction n0; intros [|m]; cbn; auto. }
  split; [intro t; split; discriminate|]. split; [intro t; split; [intros []|discriminate]|].
  split; [intros (w & Hw); discriminate|]. split; [intros t i Hd; discriminate|].
  split; [intros t [Hd|(i & Hd)]; discriminate|discriminate].
Qed.

(* every schedule of every number of threads *)
Lemma sched_RBInv sched : forall r, RBInv r -> RBInv (fold_left rb_act sched r).
Proof. induction sched as [|a l IH]; intros r H; cbn [fold_left]; [exact H|apply IH, rb_act_inv, H]. Qed.

(* mutual exclusion: a writer in its critical section excludes every reader and every other writer *)
Lemma excl_of_inv r w t : RBInv r -> writing (tpc r w) = true ->
  (reading (tpc r t) = false) /\ (writing (tpc r t) = true -> t = w).
Proof.
  intros HI Hw. inv_parts HI. assert (Ew : tpc r w = WCS) by (destruct (tpc r w); try discriminate; reflexivity).
  assert (Ww : rb_wr r = Some w) by (apply W; rewrite Ew; reflexivity).
  assert (Bf : rb_bias r = false) by (apply (E w); left; exact Ew).
  split.
  - destruct (tpc r t) eqn:Et; try reflexivity; exfalso.
    + destruct (C Bf t s Et) as (w' & i & Hw' & Hl & _). assert (w' = w) by congruence. subst w'. rewrite Ew in Hl. discriminate.
    + assert (Hin : In t (rb_rds r)) by (apply Rd; rewrite Et; reflexivity). rewrite (X (ex_intro _ w Ww)) in Hin. destruct Hin.
  - intro Ht. assert (Et : tpc r t = WCS) by (destruct (tpc r t); try discriminate; reflexivity).
    assert (Wt : rb_wr r = Some t) by (apply W; rewrite Et; reflexivity). congruence.
Qed.

Lemma mutual_exclusion sched n w t : 1 <= n ->
  let r := fold_left rb_act sched (newRB n) in
  writing (tpc r w) = true -> reading (tpc r t) = false /\ (writing (tpc r t) = true -> t = w).
Proof. intros Hn r Hw. apply excl_of_inv; [apply sched_RBInv, RBInv_init, Hn|exact Hw]. Qed.

(* and it is a lock one can take: alone, a reader and a writer both get in within n+8 steps *)
Fixpoint solo (k : nat) (r : rbm) (t : Z) : rbm := match k with O => r | S k' => solo k' (rb_act r (t, 4, 1)) t end.
Lemma example_run :
  let r0 := newRB 4 in
  let r1 := solo 6 (rb_act r0 (1, 0, 0)) 1 in            (* thread 1: RLock, fast path, starting slot 1 *)
  let r2 := solo 3 (rb_act r1 (2, 2, 0)) 2 in            (* thread 2: Lock: takes rw, clears the bias, spins on slot 1 *)
  let r3 := rb_act r2 (1, 1, 0) in                       (* thread 1: RUnlock *)
  let r4 := solo 12 r3 2 in                              (* thread 2 gets in *)
  let r5 := solo 6 (rb_act r4 (3, 0, 0)) 3 in            (* thread 3: RLock: not biased, waits for rw *)
  let r6 := solo 6 (rb_act r5 (2, 3, 0)) 3 in            (* Unlock; thread 3 reads on the slow path and re-enables the bias *)
  reading (tpc r1 1) = true /\ writing (tpc r2 2) = false /\ writing (tpc r4 2) = true /\ reading (tpc r5 3) = false /\
  reading (tpc r6 3) = true /\ rb_bias r6 = true.
Proof. vm_compute. repeat split. Qed.

(* ---- what exclusion buys: memory guarded by the lock *)
Lemma rm_inv sched : forall s, RBInv (rm_lock s) -> RBInv (rm_lock (fold_left rm_act sched s)).
Proof.
  induction sched as [|a l IH]; intros s H; cbn [fold_left]; [exact H|]. apply IH.
  destruct a as [[t code] arg]. unfold rm_act. destruct (code =? 5).
  - destruct (writing (tpc (rm_lock s) t)); exact H.
  - cbn [rm_lock]. apply rb_act_inv, H.
Qed.

(* t holds the lock (for reading or for writing) throughout sched: none of t's own actions in sched is a release *)
Definition keeps (t : Z) (sched : list (Z * Z * Z)) : Prop :=
  forall a, In a sched -> fst (fst a) = t -> snd (fst a) = 4 \/ snd (fst a) = 5.

Lemma rb_act_other r a t : fst (fst a) <> t -> tpc (rb_act r a) t = tpc r t.
Proof.
  destruct a as [[t' code] arg]. cbn [fst]. intro Ne.
  assert (F : forall r' p, tpc (with_pc r' t' p) t = tpc r' t).
  { intros r' p. rewrite tpc_set. destruct (Z.eqb_spec t t'); [congruence|reflexivity]. }
  unfold rb_act, rb_atomic.
  repeat match goal with
         | |- context [match ?x with _ => _ end] => destruct x
         end; rewrite ?F; reflexivity.
Qed.

Lemma holder_stays r t a : (reading (tpc r t) = true \/ writing (tpc r t) = true) ->
  (fst (fst a) = t -> snd (fst a) = 4 \/ snd (fst a) = 5) ->
  tpc (rb_act r a) t = tpc r t.
Proof.
  intros Hh Hk. destruct (Z.eq_dec (fst (fst a)) t) as [E|Ne]; [|apply rb_act_other, Ne].
  destruct a as [[t' code] arg]. cbn [fst snd] in *. subst t'. destruct (Hk eq_refl) as [->| ->]; [|reflexivity].
  cbn [rb_act]. unfold rb_atomic. destruct (tpc r t) eqn:Ep; cbn in Hh; destruct Hh; try discriminate; exact Ep.
Qed.

(* a reader that keeps the lock sees the cell unchanged; a writer that keeps the lock is the only one who writes *)
Lemma reader_stable sched : forall s t, RBInv (rm_lock s) -> reading (tpc (rm_lock s) t) = true -> keeps t sched ->
  let s' := fold_left rm_act sched s in
  rm_val s' = rm_val s /\ rm_writes s' = rm_writes s /\ tpc (rm_lock s') t = tpc (rm_lock s) t.
Proof.
  induction sched as [|a l IH]; intros s t HI Hr Hk; cbn [fold_left]; [auto|].
  assert (Hk' : keeps t l) by (intros x Hx; apply Hk; right; exact Hx).
  pose proof (Hk a (or_introl eq_refl)) as Ha.
  assert (Step : RBInv (rm_lock (rm_act s a)) /\ rm_val (rm_act s a) = rm_val s /\ rm_writes (rm_act s a) = rm_writes s /\
                 tpc (rm_lock (rm_act s a)) t = tpc (rm_lock s) t).
  { destruct a as [[t' code] arg]. unfold rm_act. destruct (Z.eqb_spec code 5) as [->|N5].
    - destruct (writing (tpc (rm_lock s) t')) eqn:W; [|auto].
      destruct (excl_of_inv (rm_lock s) t' t HI W) as (Nr & _). congruence.
    - cbn [rm_lock rm_val rm_writes]. split; [apply rb_act_inv, HI|]. split; [reflexivity|]. split; [reflexivity|].
      apply holder_stays; [left; exact Hr|exact Ha]. }
  destruct Step as (I1 & V1 & W1 & P1).
  destruct (IH (rm_act s a) t I1 ltac:(rewrite P1; exact Hr) Hk') as (V & W & P). cbv zeta in *.
  rewrite V, W, P, V1, W1, P1. auto.
Qed.

Definition own_writes (t : Z) (sched : list (Z * Z * Z)) : Z :=
  Z.of_nat (length (filter (fun a => (fst (fst a) =? t) && (snd (fst a) =? 5)) sched)).

Lemma writer_exclusive sched : forall s t, RBInv (rm_lock s) -> writing (tpc (rm_lock s) t) = true -> keeps t sched ->
  let s' := fold_left rm_act sched s in
  rm_writes s' = rm_writes s + own_writes t sched /\ tpc (rm_lock s') t = tpc (rm_lock s) t.
Proof.
  induction sched as [|a l IH]; intros s t HI Hw Hk; cbn [fold_left]; [unfold own_writes; cbn; split; [lia|reflexivity]|].
  assert (Hk' : keeps t l) by (intros x Hx; apply Hk; right; exact Hx).
  pose proof (Hk a (or_introl eq_refl)) as Ha.
  assert (Step : RBInv (rm_lock (rm_act s a)) /\
                 rm_writes (rm_act s a) = rm_writes s + (if (fst (fst a) =? t) && (snd (fst a) =? 5) then 1 else 0) /\
                 tpc (rm_lock (rm_act s a)) t = tpc (rm_lock s) t).
  { destruct a as [[t' code] arg]. unfold rm_act. cbn [fst snd]. destruct (Z.eqb_spec code 5) as [->|N5].
    - destruct (writing (tpc (rm_lock s) t')) eqn:W.
      + destruct (excl_of_inv (rm_lock s) t t' HI Hw) as (_ & U). specialize (U W). subst t'.
        rewrite Z.eqb_refl. cbn [andb rm_lock rm_writes]. auto.
      + destruct (Z.eqb_spec t' t) as [->|]; [congruence|]. cbn [andb]. split; [exact HI|split; [lia|reflexivity]].
    - cbn [rm_lock rm_writes]. rewrite andb_false_r. split; [apply rb_act_inv, HI|]. split; [lia|].
      apply holder_stays; [right; exact Hw|exact Ha]. }
  destruct Step as (I1 & W1 & P1).
  destruct (IH (rm_act s a) t I1 ltac:(rewrite P1; exact Hw) Hk') as (W & P). cbv zeta in *.
  rewrite W, P, W1, P1. split; [|reflexivity]. unfold own_writes. cbn [filter].
  destruct ((fst (fst a) =? t) && (snd (fst a) =? 5)); cbn [length]; lia.
Qed.

(* from the initial state, after any schedule *)
Lemma reader_stable_reach pre sched n t : 1 <= n ->
  let s := fold_left rm_act pre (rm_new n) in
  reading (tpc (rm_lock s) t) = true -> keeps t sched ->
  rm_val (fold_left rm_act sched s) = rm_val s.
Proof.
  intros Hn s Hr Hk. apply (reader_stable sched s t); [apply rm_inv, RBInv_init, Hn|exact Hr|exact Hk].
Qed.
Lemma writer_exclusive_reach pre sched n t : 1 <= n ->
  let s := fold_left rm_act pre (rm_new n) in
  writing (tpc (rm_lock s) t) = true -> keeps t sched ->
  rm_writes (fold_left rm_act sched s) = rm_writes s + own_writes t sched.
Proof.
  intros Hn s Hw Hk. apply (writer_exclusive sched s t); [apply rm_inv, RBInv_init, Hn|exact Hw|exact Hk].
Qed.
