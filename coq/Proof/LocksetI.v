(* Proof/LocksetI.v — the table scraped from /repo on this run is disciplined (checked by computation) *)
From Coq Require Import String List Bool.
From Verif Require Import Model.Lockset Gen.Access Proof.LocksetP.
Import ListNotations.

Lemma table_disciplined : disciplined accesses = true.
Proof. vm_compute. reflexivity. Qed.

Lemma table_no_race : forall st t1 t2 a b,
  lock_ok st -> In a accesses -> In b accesses -> conflicting a b -> t1 <> t2 ->
  at_site st t1 a -> at_site st t2 b -> False.
Proof. intros st t1 t2 a b. apply (no_race_state accesses st t1 t2 a b table_disciplined). Qed.

Lemma table_nonempty :
  Nat.leb 200 (length accesses) && Nat.leb 40 (length (filter is_write accesses)) &&
  existsb (String.eqb "Store.policyMu") (lock_names accesses) && existsb (String.eqb "Shard.mu") (lock_names accesses) = true.
Proof. vm_compute. reflexivity. Qed.

(* C10: no goroutine parks on a channel send while it certainly holds a lock (the table of this run) *)
Definition holds_no_lock (s : string * list (string * lmode) * string) : bool :=
  match snd (fst s) with [] => true | _ => false end.
Lemma blocking_sites_hold_no_lock : forallb holds_no_lock blocking_sites = true /\ blocking_sites <> [].
Proof. split; [vm_compute; reflexivity|discriminate]. Qed.
