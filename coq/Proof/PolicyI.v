(* Proof/PolicyI.v — the structural invariant of the eviction policy and its preservation
   by the primitive list moves (C07) *)
From Coq Require Import ZArith List Bool Lia Permutation.
From Coq Require Import ZifyBool.
From Verif Require Import Base.Word64 Model.Sketch Model.Policy Proof.ExpiryP Proof.PolicyL.
Import ListNotations.
Open Scope Z_scope.

Definition LOK (l : plist) : Prop :=
  llen l = sumpw (litems l) /\ lcount l = Z.of_nat (length (litems l)).

Definition all_items (p : policy) : list pent := litems (win p) ++ litems (prob p) ++ litems (prot p).

Definition big : Z := 2305843009213693952. (* 2^61 *)

(* the invariant between and during policy operations; [slack] bounds the transient overshoot *)
Definition Core (p : policy) : Prop :=
  NoDup (ids_of (all_items p)) /\
  LOK (win p) /\ LOK (prob p) /\ LOK (prot p) /\
  wsz p = llen (win p) + llen (prob p) + llen (prot p) /\
  (forall e, In e (all_items p) -> 1 <= pw e <= pcap p) /\
  1 <= pcap p < big /\
  1 <= lcap (win p) /\ 0 <= lcap (prot p) /\ lcap (win p) + lcap (prot p) < big /\
  wsz p <= 2 * pcap p /\
  perr p = false.

Lemma sumpw_nonneg l : (forall e, In e l -> 1 <= pw e) -> 0 <= sumpw l.
Proof.
  induction l as [|x l IH]; intro H; [cbn; lia|]. rewrite sumpw_cons.
  assert (1 <= pw x) by (apply H; left; reflexivity).
  assert (0 <= sumpw l) by (apply IH; intros e He; apply H; right; exact He). lia.
Qed.

Lemma sumpw_ge_len l : (forall e, In e l -> 1 <= pw e) -> Z.of_nat (length l) <= sumpw l.
Proof.
  induction l as [|x l IH]; intro H; [cbn; lia|]. rewrite sumpw_cons. cbn [length].
  assert (1 <= pw x) by (apply H; left; reflexivity).
  assert (Z.of_nat (length l) <= sumpw l) by (apply IH; intros e He; apply H; right; exact He). lia.
Qed.

Lemma perm_without l e : NoDup (ids_of l) -> In e l -> Permutation l (e :: without l (pid e)).
Proof.
  induction l as [|x l IH]; intros Hn Hi; [destruct Hi|]. cbn [ids_of map] in Hn. inversion Hn as [|? ? Hx Hd]; subst.
  unfold without. cbn [filter]. destruct Hi as [->|Hi].
  - rewrite Z.eqb_refl. cbn [negb]. fold (without l (pid e)). rewrite without_notin by exact Hx. apply Permutation_refl.
  - destruct (Z.eqb_spec (pid x) (pid e)) as [E|N].
    + exfalso. apply Hx. rewrite E. apply in_map. exact Hi.
    + cbn [negb]. fold (without l (pid e)). eapply perm_trans; [apply perm_skip, IH; assumption|]. apply perm_swap.
Qed.

Lemma nodup_app_parts (a b : list Z) : NoDup (a ++ b) -> NoDup a /\ NoDup b /\ (forall x, In x a -> ~ In x b).
Proof.
  induction a as [|y a IH]; intro H; cbn [app] in H.
  - split; [constructor|]. split; [exact H|]. intros x [].
  - inversion H as [|? ? Hn Hd]; subst. destruct (IH Hd) as (Na & Nb & D). split; [|split; [exact Nb|]].
    + constructor; [|exact Na]. intro Hi. apply Hn. apply in_or_app. left. exact Hi.
    + intros x [->|Hx] Hb; [apply Hn; apply in_or_app; right; exact Hb|apply (D x Hx Hb)].
Qed.

Lemma has_true l id : has l id = true <-> In id (ids_of l).
Proof.
  unfold has, ids_of. rewrite existsb_exists. split.
  - intros (x & Hx & E). apply in_map_iff. exists x. split; [lia|exact Hx].
  - intro H. apply in_map_iff in H. destruct H as (x & E & Hx). exists x. split; [exact Hx|lia].
Qed.

Lemma has_false l id : has l id = false <-> ~ In id (ids_of l).
Proof. rewrite <- has_true. destruct (has l id); split; intro H; congruence. Qed.

Section Regions.
  Variable p : policy.
  Hypothesis HC : Core p.

  Let W := litems (win p). Let B := litems (prob p). Let T := litems (prot p).

  Lemma nd_parts : NoDup (ids_of W) /\ NoDup (ids_of B) /\ NoDup (ids_of T) /\
    (forall x, In x (ids_of W) -> ~ In x (ids_of B) /\ ~ In x (ids_of T)) /\
    (forall x, In x (ids_of B) -> ~ In x (ids_of T)).
  Proof.
    destruct HC as (Hn & _). unfold all_items, ids_of in Hn. rewrite !map_app in Hn.
    destruct (nodup_app_parts _ _ Hn) as (N1 & N23 & D1). destruct (nodup_app_parts _ _ N23) as (N2 & N3 & D2).
    repeat split; auto.
    - intro Hb. apply (D1 x H). apply in_or_app. left. exact Hb.
    - intro Ht. apply (D1 x H). apply in_or_app. right. exact Ht.
  Qed.

  Lemma region_win e : In e W -> region p (pid e) = 4.
  Proof. intro H. unfold region. fold W. replace (has W (pid e)) with true; [reflexivity|]. symmetry. apply has_true, in_map, H. Qed.

  Lemma region_prob e : In e B -> region p (pid e) = 1.
  Proof.
    intro H. destruct nd_parts as (_ & _ & _ & D1 & _). unfold region. fold W B.
    replace (has W (pid e)) with false.
    - replace (has B (pid e)) with true; [reflexivity|]. symmetry. apply has_true, in_map, H.
    - symmetry. apply has_false. intro Hw. apply (proj1 (D1 _ Hw)). apply in_map, H.
  Qed.

  Lemma region_prot e : In e T -> region p (pid e) = 2.
  Proof.
    intro H. destruct nd_parts as (_ & _ & _ & D1 & D2). unfold region. fold W B T.
    replace (has W (pid e)) with false.
    - replace (has B (pid e)) with false.
      + replace (has T (pid e)) with true; [reflexivity|]. symmetry. apply has_true, in_map, H.
      + symmetry. apply has_false. intro Hb. apply (D2 _ Hb). apply in_map, H.
    - symmetry. apply has_false. intro Hw. apply (proj2 (D1 _ Hw)). apply in_map, H.
  Qed.

  Lemma len_bounds : 0 <= llen (win p) /\ 0 <= llen (prob p) /\ 0 <= llen (prot p) /\ 0 <= wsz p.
  Proof.
    destruct HC as (_ & (Lw & _) & (Lb & _) & (Lt & _) & Hs & Hp & _).
    assert (P : forall l, (forall e, In e l -> In e (all_items p)) -> 0 <= sumpw l).
    { intros l Hl. apply sumpw_nonneg. intros e He. apply Hp, Hl, He. }
    rewrite Hs, Lw, Lb, Lt.
    assert (0 <= sumpw W) by (apply P; intros; apply in_or_app; left; assumption).
    assert (0 <= sumpw B) by (apply P; intros; apply in_or_app; right; apply in_or_app; left; assumption).
    assert (0 <= sumpw T) by (apply P; intros; apply in_or_app; right; apply in_or_app; right; assumption).
    fold W B T. lia.
  Qed.
End Regions.

(* rebuilding Core after the three item lists were rearranged *)
Lemma core_rebuild p p' :
  Core p ->
  Permutation (all_items p') (all_items p) ->
  LOK (win p') -> LOK (prob p') -> LOK (prot p') ->
  wsz p' = wsz p -> pcap p' = pcap p -> lcap (win p') = lcap (win p) -> lcap (prot p') = lcap (prot p) -> perr p' = perr p ->
  Core p'.
Proof.
  intros (Hn & Lw & Lb & Lt & Hs & Hp & Hc & C1 & C2 & C3 & Ht & He) P Lw' Lb' Lt' Es Ec Ew Et Ee.
  assert (Sum : sumpw (all_items p') = sumpw (all_items p)).
  { clear - P. induction P; rewrite ?sumpw_cons; lia. }
  split.
  { unfold ids_of. eapply Permutation_NoDup; [apply Permutation_map, Permutation_sym, P|exact Hn]. }
  split; [exact Lw'|]. split; [exact Lb'|]. split; [exact Lt'|]. split.
  { destruct Lw' as [a _], Lb' as [b _], Lt' as [c _]. destruct Lw as [a0 _], Lb as [b0 _], Lt as [c0 _].
    unfold all_items in Sum. rewrite !sumpw_app in Sum. rewrite Es, Hs. lia. }
  split.
  { intros e Hi. rewrite Ec. apply Hp. eapply Permutation_in; [exact P|exact Hi]. }
  rewrite Ec, Ew, Et, Es, Ee. repeat split; try lia; auto.
Qed.

Lemma s64_id x : - two63 <= x < two63 -> s64 x = x.
Proof. apply s64_small. Qed.

Ltac bigs := unfold big, two63, two64 in *.

(* list primitives keep "recorded size = sum, recorded count = number" *)
Lemma LOK_remove l e : NoDup (ids_of (litems l)) -> In e (litems l) -> LOK l ->
  (forall x, In x (litems l) -> 1 <= pw x) -> llen l < two63 ->
  LOK (lremove l e) /\ llen (lremove l e) = llen l - pw e /\ 0 <= llen (lremove l e).
Proof.
  intros Hn Hi [L C] Hpos Hb. unfold LOK, lremove. cbn [litems llen lcount].
  pose proof (without_sum _ _ Hn Hi) as Hs. pose proof (without_length _ _ Hn Hi) as Hl.
  assert (0 <= sumpw (without (litems l) (pid e))).
  { apply sumpw_nonneg. intros x Hx. apply Hpos. apply without_in in Hx. apply Hx. }
  assert (1 <= pw e) by (apply Hpos, Hi).
  rewrite s64_id by (bigs; lia). rewrite Hs. repeat split; lia.
Qed.

Lemma LOK_pushFront l e : LOK l -> 0 <= llen l -> llen l + pw e < two63 -> 0 <= pw e ->
  LOK (pushFront l e) /\ llen (pushFront l e) = llen l + pw e.
Proof.
  intros [L C] H0 Hb Hp. unfold LOK, pushFront. cbn [litems llen lcount length].
  rewrite s64_id by (bigs; lia). rewrite sumpw_cons. repeat split; lia.
Qed.

Lemma LOK_mtf l e : NoDup (ids_of (litems l)) -> In e (litems l) -> LOK l -> LOK (moveToFront l e).
Proof.
  intros Hn Hi [L C]. unfold LOK, moveToFront. cbn [litems llen lcount length].
  rewrite sumpw_cons, (without_sum _ _ Hn Hi). pose proof (without_length _ _ Hn Hi). split; lia.
Qed.

(* ---------- moves between regions ---------- *)
Definition unchanged_scalars (p p' : policy) : Prop :=
  wsz p' = wsz p /\ pcap p' = pcap p /\ lcap (win p') = lcap (win p) /\ lcap (prot p') = lcap (prot p) /\
  lcap (prob p') = lcap (prob p) /\ perr p' = perr p /\ psk p' = psk p /\ hitsS p' = hitsS p /\ missS p' = missS p /\ pamount p' = pamount p.

Lemma core_lt p : Core p -> llen (win p) < two63 /\ llen (prob p) < two63 /\ llen (prot p) < two63 /\
  (forall e, In e (all_items p) -> llen (win p) + pw e < two63 /\ llen (prob p) + pw e < two63 /\ llen (prot p) + pw e < two63).
Proof.
  intro HC. pose proof (len_bounds p HC) as (a & b & c & d).
  destruct HC as (_ & _ & _ & _ & Hs & Hp & Hc & _ & _ & _ & Ht & _). bigs.
  repeat split; try lia; specialize (Hp e H); lia.
Qed.

Lemma pos_sub p (l : list pent) : Core p -> (forall x, In x l -> In x (all_items p)) -> forall x, In x l -> 1 <= pw x.
Proof. intros (_ & _ & _ & _ & _ & Hp & _) Hl x Hx. apply Hp, Hl, Hx. Qed.

Lemma inW p x : In x (litems (win p)) -> In x (all_items p).
Proof. intro H. unfold all_items. apply in_or_app. left. exact H. Qed.
Lemma inB p x : In x (litems (prob p)) -> In x (all_items p).
Proof. intro H. unfold all_items. apply in_or_app. right. apply in_or_app. left. exact H. Qed.
Lemma inT p x : In x (litems (prot p)) -> In x (all_items p).
Proof. intro H. unfold all_items. apply in_or_app. right. apply in_or_app. right. exact H. Qed.

(* protected -> probation (demotion) *)
Lemma move_TB p e : Core p -> In e (litems (prot p)) ->
  let p' := with_prob (with_prot p (lremove (prot p) e)) (pushFront (prob p) e) in
  Core p' /\ unchanged_scalars p p' /\ litems (win p') = litems (win p) /\
  litems (prot p') = without (litems (prot p)) (pid e) /\ litems (prob p') = e :: litems (prob p) /\
  llen (prot p') = llen (prot p) - pw e /\ llen (win p') = llen (win p).
Proof.
  intros HC Hi. cbv zeta. pose proof (nd_parts p HC) as (Nw & Nb & Nt & _). pose proof (len_bounds p HC) as (a & b & c & d).
  pose proof (core_lt p HC) as (l1 & l2 & l3 & l4). destruct (l4 e (inT p e Hi)) as (_ & m2 & _).
  destruct (LOK_remove (prot p) e Nt Hi ltac:(apply HC) (pos_sub p _ HC (inT p)) l3) as (R1 & R2 & R3).
  assert (Pe : 1 <= pw e) by (apply (pos_sub p _ HC (inT p)), Hi).
  destruct (LOK_pushFront (prob p) e ltac:(apply HC) b m2 ltac:(lia)) as (F1 & F2).
  split; [|repeat split; auto].
  apply (core_rebuild p); try reflexivity; auto; try apply HC.
  unfold all_items. cbn [with_prob with_prot win prob prot pushFront lremove litems].
    apply Permutation_app_head.
    eapply perm_trans; [|apply Permutation_app_head, Permutation_sym, (perm_without _ e Nt Hi)].
    cbn [app]. apply Permutation_middle.
Qed.

(* window -> probation (window overflow, window shrink) *)
Lemma move_WB p e : Core p -> In e (litems (win p)) ->
  let p' := with_prob (with_win p (lremove (win p) e)) (pushFront (prob p) e) in
  Core p' /\ unchanged_scalars p p' /\ litems (prot p') = litems (prot p) /\
  litems (win p') = without (litems (win p)) (pid e) /\ litems (prob p') = e :: litems (prob p) /\
  llen (win p') = llen (win p) - pw e /\ llen (prot p') = llen (prot p).
Proof.
  intros HC Hi. cbv zeta. pose proof (nd_parts p HC) as (Nw & Nb & Nt & _). pose proof (len_bounds p HC) as (a & b & c & d).
  pose proof (core_lt p HC) as (l1 & l2 & l3 & l4). destruct (l4 e (inW p e Hi)) as (_ & m2 & _).
  destruct (LOK_remove (win p) e Nw Hi ltac:(apply HC) (pos_sub p _ HC (inW p)) l1) as (R1 & R2 & R3).
  assert (Pe : 1 <= pw e) by (apply (pos_sub p _ HC (inW p)), Hi).
  destruct (LOK_pushFront (prob p) e ltac:(apply HC) b m2 ltac:(lia)) as (F1 & F2).
  split; [|repeat split; auto].
  apply (core_rebuild p); try reflexivity; auto; try apply HC.
  unfold all_items. cbn [with_prob with_win win prob prot pushFront lremove litems].
  eapply perm_trans; [|apply Permutation_app_tail, Permutation_sym, (perm_without _ e Nw Hi)].
  cbn [app]. eapply perm_trans; [apply Permutation_app_head; cbn [app]; apply Permutation_refl|].
  change ((e :: litems (prob p)) ++ litems (prot p)) with (e :: litems (prob p) ++ litems (prot p)).
  apply Permutation_sym, Permutation_middle.
Qed.

(* probation -> protected (second access) *)
Lemma move_BT p e : Core p -> In e (litems (prob p)) ->
  let p' := with_prot (with_prob p (lremove (prob p) e)) (pushFront (prot p) e) in
  Core p' /\ unchanged_scalars p p' /\ litems (win p') = litems (win p) /\
  litems (prob p') = without (litems (prob p)) (pid e) /\ litems (prot p') = e :: litems (prot p).
Proof.
  intros HC Hi. cbv zeta. pose proof (nd_parts p HC) as (Nw & Nb & Nt & _). pose proof (len_bounds p HC) as (a & b & c & d).
  pose proof (core_lt p HC) as (l1 & l2 & l3 & l4). destruct (l4 e (inB p e Hi)) as (_ & _ & m3).
  destruct (LOK_remove (prob p) e Nb Hi ltac:(apply HC) (pos_sub p _ HC (inB p)) l2) as (R1 & R2 & R3).
  assert (Pe : 1 <= pw e) by (apply (pos_sub p _ HC (inB p)), Hi).
  destruct (LOK_pushFront (prot p) e ltac:(apply HC) c m3 ltac:(lia)) as (F1 & F2).
  split; [|repeat split; auto].
  apply (core_rebuild p); try reflexivity; auto; try apply HC.
  unfold all_items. cbn [with_prob with_prot win prob prot pushFront lremove litems].
  apply Permutation_app_head.
  eapply perm_trans; [|apply Permutation_app_tail, Permutation_sym, (perm_without _ e Nb Hi)].
  cbn [app]. apply Permutation_sym, Permutation_middle.
Qed.

(* probation / protected -> window (window growth) *)
Lemma move_BW p e : Core p -> In e (litems (prob p)) ->
  let p1 := with_prob p (lremove (prob p) e) in
  let p' := with_win p1 (pushFront (win p1) e) in
  Core p' /\ unchanged_scalars p p' /\ litems (prot p') = litems (prot p) /\
  litems (prob p') = without (litems (prob p)) (pid e) /\ litems (win p') = e :: litems (win p).
Proof.
  intros HC Hi. cbv zeta. pose proof (nd_parts p HC) as (Nw & Nb & Nt & _). pose proof (len_bounds p HC) as (a & b & c & d).
  pose proof (core_lt p HC) as (l1 & l2 & l3 & l4). destruct (l4 e (inB p e Hi)) as (m1 & _ & _).
  destruct (LOK_remove (prob p) e Nb Hi ltac:(apply HC) (pos_sub p _ HC (inB p)) l2) as (R1 & R2 & R3).
  assert (Pe : 1 <= pw e) by (apply (pos_sub p _ HC (inB p)), Hi).
  destruct (LOK_pushFront (win p) e ltac:(apply HC) a m1 ltac:(lia)) as (F1 & F2).
  split; [|repeat split; auto].
  apply (core_rebuild p); try reflexivity; auto; try apply HC.
  unfold all_items. cbn [with_prob with_win win prob prot pushFront lremove litems].
  cbn [app]. eapply perm_trans; [|apply Permutation_app_head, Permutation_app_tail, Permutation_sym, (perm_without _ e Nb Hi)].
  cbn [app]. apply Permutation_middle.
Qed.

Lemma move_TW p e : Core p -> In e (litems (prot p)) ->
  let p1 := with_prot p (lremove (prot p) e) in
  let p' := with_win p1 (pushFront (win p1) e) in
  Core p' /\ unchanged_scalars p p' /\ litems (prob p') = litems (prob p) /\
  litems (prot p') = without (litems (prot p)) (pid e) /\ litems (win p') = e :: litems (win p).
Proof.
  intros HC Hi. cbv zeta. pose proof (nd_parts p HC) as (Nw & Nb & Nt & _). pose proof (len_bounds p HC) as (a & b & c & d).
  pose proof (core_lt p HC) as (l1 & l2 & l3 & l4). destruct (l4 e (inT p e Hi)) as (m1 & _ & _).
  destruct (LOK_remove (prot p) e Nt Hi ltac:(apply HC) (pos_sub p _ HC (inT p)) l3) as (R1 & R2 & R3).
  assert (Pe : 1 <= pw e) by (apply (pos_sub p _ HC (inT p)), Hi).
  destruct (LOK_pushFront (win p) e ltac:(apply HC) a m1 ltac:(lia)) as (F1 & F2).
  split; [|repeat split; auto].
  apply (core_rebuild p); try reflexivity; auto; try apply HC.
  unfold all_items. cbn [with_prot with_win win prob prot pushFront lremove litems].
  cbn [app]. eapply perm_trans; [|apply Permutation_app_head, Permutation_app_head, Permutation_sym, (perm_without _ e Nt Hi)].
  rewrite !app_assoc. apply Permutation_middle.
Qed.

(* move to the front inside a region *)
Lemma mtf_W p e : Core p -> In e (litems (win p)) ->
  let p' := with_win p (moveToFront (win p) e) in Core p' /\ unchanged_scalars p p'.
Proof.
  intros HC Hi. cbv zeta. pose proof (nd_parts p HC) as (Nw & _). split; [|repeat split; auto].
  apply (core_rebuild p); try reflexivity; auto; try apply HC.
  - unfold all_items. cbn [with_win win prob prot moveToFront litems]. apply Permutation_app_tail, Permutation_sym, perm_without; assumption.
  - apply LOK_mtf; [exact Nw|exact Hi|apply HC].
Qed.

Lemma mtf_T p e : Core p -> In e (litems (prot p)) ->
  let p' := with_prot p (moveToFront (prot p) e) in Core p' /\ unchanged_scalars p p'.
Proof.
  intros HC Hi. cbv zeta. pose proof (nd_parts p HC) as (_ & _ & Nt & _). split; [|repeat split; auto].
  apply (core_rebuild p); try reflexivity; auto; try apply HC.
  - unfold all_items. cbn [with_prot win prob prot moveToFront litems].
    apply Permutation_app_head, Permutation_app_head, Permutation_sym, perm_without; assumption.
  - apply LOK_mtf; [exact Nt|exact Hi|apply HC].
Qed.
