(* Proof/CloseP.v — C10 *)
From Coq Require Import ZArith List Bool Lia.
From Verif Require Import Base.Word64 Model.Sketch Model.Expiry Model.Wheel Model.Policy Model.Store Model.Close.
From Verif Require Import Proof.StoreMap.
Import ListNotations.
Open Scope Z_scope.

Lemma nth_updp l : forall i p j, (i < length l)%nat ->
  nth_error (updp l i p) j = if Nat.eqb j i then Some p else nth_error l j.
Proof.
  induction l as [|a l IH]; intros i p j Hi; [cbn in Hi; lia|].
  destruct i as [|i], j as [|j]; cbn [updp nth_error Nat.eqb]; try reflexivity.
  apply IH. cbn in Hi. lia.
Qed.

Lemma nth_set_proc st i p q j : (i < length (procs st))%nat ->
  nth_error (procs (set_proc st i p q)) j = if Nat.eqb j i then Some p else nth_error (procs st) j.
Proof. intro Hi. unfold set_proc. cbn [procs]. apply nth_updp, Hi. Qed.

(* once the context is cancelled, every unfinished process — whatever it was blocked on — has an
   enabled step, and that step finishes it *)
Lemma closed_no_stuck st i p :
  cclosed st = true -> nth_error (procs st) i = Some p -> p <> Fin ->
  exists st', cstep st i = Some st' /\ nth_error (procs st') i = Some Fin /\ cclosed st' = true /\
              (forall j, j <> i -> nth_error (procs st') j = nth_error (procs st) j).
Proof.
  intros Hc Hp Hne. unfold cstep. rewrite Hp, Hc.
  assert (Hi : (i < length (procs st))%nat) by (apply nth_error_Some; congruence).
  assert (G : exists st', Some (set_proc st i Fin (cq st)) = Some st' /\ nth_error (procs st') i = Some Fin /\
              cclosed st' = true /\ (forall j, j <> i -> nth_error (procs st') j = nth_error (procs st) j)).
  { eexists. split; [reflexivity|]. split; [rewrite nth_set_proc by exact Hi; rewrite Nat.eqb_refl; reflexivity|].
    split; [exact Hc|]. intros j N. rewrite nth_set_proc by exact Hi. destruct (Nat.eqb_spec j i); [congruence|reflexivity]. }
  destruct p; try exact G. congruence.
Qed.

Definition live (p : cproc) : bool := match p with Fin => false | _ => true end.

Lemma filter_len_set (l : list cproc) : forall i p,
  nth_error l i = Some p -> p <> Fin ->
  length (filter live (updp l i Fin)) = pred (length (filter live l)).
Proof.
  induction l as [|a l IH]; intros i p H Hne; [destruct i; discriminate|].
  destruct i as [|i]; cbn [nth_error updp] in *.
  - inversion H. subst a. cbn [filter live]. destruct p; try reflexivity. congruence.
  - cbn [filter].
    assert (P : (0 < length (filter live l))%nat).
    { clear IH. revert i H. induction l as [|b l IHl]; intros i H; [destruct i; discriminate|].
      destruct i as [|i]; cbn [nth_error] in H; cbn [filter].
      - inversion H. subst b. destruct p; cbn [live length]; try lia. congruence.
      - destruct (live b); cbn [length]; [lia|apply (IHl i H)]. }
    specialize (IH i p H Hne). destruct (live a); cbn [length]; lia.
Qed.

(* and each such step strictly decreases the number of unfinished processes: after Close every
   process (writers, waiters, maintenance, ticker, workers) terminates within that many steps *)
Lemma closed_progress st i p st' :
  cclosed st = true -> nth_error (procs st) i = Some p -> p <> Fin -> cstep st i = Some st' ->
  unfinished st' = pred (unfinished st).
Proof.
  intros Hc Hp Hne Hs. unfold cstep in Hs. rewrite Hp, Hc in Hs.
  assert (E : st' = set_proc st i Fin (cq st)) by (destruct p; inversion Hs; congruence).
  subst st'. unfold unfinished, set_proc. cbn [procs]. apply (filter_len_set (procs st) i p); assumption.
Qed.

(* ---------- after Close the store model is inert ---------- *)
Lemma closed_get_misses s k now a0 : sclosed s = true -> snd (sget s k now a0) = [0; 0].
Proof. intro H. unfold sget, lookup_live. rewrite H. reflexivity. Qed.

Lemma closed_set_noop s k v cost ttl now h dk : sclosed s = true ->
  fst (fst (sset3 s k v cost ttl now h dk)) = s /\ snd (sset3 s k v cost ttl now h dk) = false.
Proof. intro H. unfold sset3, set_section. rewrite H. destruct (_ <? _); auto. Qed.

Lemma closed_delete_noop s k h : sclosed s = true -> sdelete s k h = s.
Proof. intro H. unfold sdelete. rewrite H. reflexivity. Qed.

Lemma closed_load_fails s k now a0 h err v cost ttl dk : sclosed s = true ->
  snd (sload s k now a0 h err v cost ttl dk) = [3; 0] /\
  smap (fst (sload s k now a0 h err v cost ttl dk)) = smap s /\ queue (fst (sload s k now a0 h err v cost ttl dk)) = queue s.
Proof. intro H. unfold sload, sload3, lookup_live. rewrite H. cbn [sclosed set_counts]. rewrite H. auto. Qed.

Lemma closed_wait_noop s w : sclosed s = true -> fst (st_step s [12; w]) = s.
Proof. intro H. cbn [st_step fst]. rewrite H. reflexivity. Qed.

Lemma close_closes s : sclosed (fst (st_step s [9])) = true /\ smap (fst (st_step s [9])) = [].
Proof. split; reflexivity. Qed.

(* Close is final: no operation re-opens the cache *)
Lemma closed_stays s o : sclosed s = true -> sclosed (fst (st_step s (enc o))) = true.
Proof.
  intro H. destruct o; cbn [enc st_step fst]; try exact H; try reflexivity.
  - unfold sget, lookup_live. rewrite H. exact H.
  - unfold sset. destruct (closed_set_noop s k v cost ttl now h (negb (dk =? 0)) H) as [A B].
    destruct (sset3 s k v cost ttl now h (negb (dk =? 0))) as [[s' ok] st]. cbn [fst snd] in *. subst. exact H.
  - rewrite closed_delete_noop by exact H. exact H.
  - unfold sink_nth. destruct (nth_error _ _) as [it|]; [|exact H].
    match goal with |- context [sinkWrite ?a ?b ?c ?d ?e] => destruct (sinkWrite_ext a b c d e) as (_ & C & _) end.
    rewrite C. exact H.
  - destruct (tick_ext s now) as (_ & C & _). rewrite C. exact H.
  - unfold sload, sload3, lookup_live. rewrite H. cbn [sclosed set_counts]. rewrite H. exact H.
  - destruct (map_get (smap s) _); [|exact H].
    match goal with |- context [removeEntry ?a ?b ?c ?d] => destruct (removeEntry_ext a b c d) as (_ & C & _) end.
    rewrite C. exact H.
Qed.
