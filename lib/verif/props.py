"""props.py — per-property configuration of the checks."""

KERNEL = "Coq 8.16.1 kernel (coqc; vm_compute used in examples and in-kernel replay; no native_compute)"
EXTRACT = "extraction with ExtrOcamlBasic only (no Extract Constant); OCaml 4.13.1 driver.ml (decimal parsing via zarith)"
HARNESS = "Go white-box harness injected with -overlay, build tag verif; check driver (python)"

PROPS = {
    "C17": {
        "props_files": ["Props/C17.v"],
        "go_tests": ["TestVerifSketch"],
        "level": "proof",
        "rule": "random op sequences (Add/Addn/Estimate/EnsureCapacity/reset/dump) on the real CountMinSketch over "
                "adversarial hash pools (0, 2^64-1, many keys in one block) and table sizes 64..2^24; a case is "
                "non-trivial if it has >= 3 steps; distinct = distinct sha1 of the whole recorded case",
        "trusted_base": [KERNEL, EXTRACT, HARNESS,
                         "modelled, not verified: Go uint64/uint arithmetic as Z with explicit mod 2^64; bits.OnesCount64 as nibble-wise popcount; slices as lists"],
        "assumptions": ["uint is 64 bits wide (amd64)", "table sizes up to 2^60 words in the theorems; up to 2^24 exercised on the code"],
        "explanation": "theorems over all hashes / all op sequences; model tied to code by replaying recorded traces of the real sketch on the extracted model and a sample in-kernel",
    },
    "C03": {
        "props_files": ["Props/C03.v"],
        "go_tests": ["TestVerifExpiry"],
        "level": "proof",
        "rule": "generated (set time, ttl, optional second Set, read time, cached-clock lag) tuples through the real Store/LoadingStore "
                "API under virtual time: TTLs 1ns..MaxInt64 (overflowing), read instants within +-2ns of the deadline, of 2^30ns tick "
                "boundaries and of the 30s window edge; non-trivial = case with >= 3 steps; distinct = sha1 of the case",
        "trusted_base": [KERNEL, EXTRACT, HARNESS, "hook H1 (virtual clock, build tag verif)",
                         "modelled, not verified: int64 arithmetic as Z with explicit two's-complement wrap; time.Duration as int64 ns"],
        "assumptions": ["the cached clock is refreshed at least once per 30 s window (ticker goroutine gets scheduled; after the F1 fix it no longer waits for the policy lock)",
                        "clock readings below 2^62 ns (146 years of uptime)"],
        "explanation": "theorems about saturatingAdd (regenerated from clock.go) and the read decision; Store-level behaviour compared step by step with the model",
    },
    "C04": {
        "props_files": ["Props/C04.v"],
        "go_tests": ["TestVerifWheel"],
        "level": "proof",
        "rule": "random schedule / re-schedule / deschedule / advance sequences on the real TimerWheel with explicit times: deadlines on "
                "all five levels, +-2ns around every slot boundary and wrap-around, advances of 0..several rotations; non-trivial = >= 3 steps",
        "trusted_base": [KERNEL, EXTRACT, HARNESS,
                         "modelled, not verified: the intrusive doubly linked slot lists as sub-sequences of one flat list; int64 as Z"],
        "assumptions": ["callers schedule only deadlines after wheel time (established by the store paths, see C04 store-level part)",
                        "advance times are non-decreasing and below 2^62 ns"],
        "explanation": "wheel invariants proved over all op sequences; model replayed against the real TimerWheel",
    },
    "C07": {
        "props_files": ["Props/C07.v"],
        "go_tests": ["TestVerifPolicy", "TestVerifDList", "TestVerifFlags", "TestVerifClimber"],
        "level": "proof",
        "rule": "random insert / access / remove / cost-update / forced-climb sequences on the real TinyLfu for capacities 1..2000 "
                "(tiny ones over-represented), costs skewed to 1, window capacity +-1 and the full capacity, sketch contents and "
                "admission coin varied; non-trivial = >= 3 steps; distinct = sha1 of the recorded case",
        "trusted_base": [KERNEL, EXTRACT, HARNESS, "hook H7 (controllable Fastrand, build tag verif)",
                         "the raw int(amount) of a climb is an input of the policy model; the arithmetic that produces it is a model of its own (Model/Climber.v: Flocq's IEEE 754 binary32, "
                         "compared bit for bit with the real climb()), and c07_climb_amounts_meet_guard shows every amount it can produce meets the policy theorems' guard - that one theorem rests on the "
                         "standard library's real-number axioms (ClassicalDedekindReals.sig_forall_dec, sig_not_dec, Classical_Prop.classic, FunctionalExtensionality.functional_extensionality_dep), all others are axiom-free; "
                         "the constructors' float32 capacities are modelled too (init_window / init_main / init_protected, compared with NewTinyLfu / NewSlru for sizes up to 2^61; c07_constructor, same axioms); modelled, not verified: intrusive lists as Coq lists (justified: pointer-level model Model/DList.v proved to refine them, and compared with the real List); entry flags as booleans (justified: Model/Flags.v, bit table scraped from policy_flag.go); uint as Z mod 2^64"],
        "assumptions": ["costs are in 1..capacity (C06 covers rejection above capacity)"],
        "explanation": "structural invariant proved over all op sequences of the policy model; model replayed step by step against the real TinyLfu",
    },
}

STORE_RULE = ("random histories on the real Store driven deterministically (maintenance goroutines stopped, the harness delivers queued "
              "events in FIFO or overtaking order, plays ticks, cached-clock refreshes and stale wheel visits): Set/SetWithTTL/Get/"
              "loading Get/Delete/Range/Len/Stats, costs incl. 0 and above MaxSize, TTLs 1ns..2^44ns, MaxSize 1..380, doorkeeper on in a "
              "quarter of the cases; non-trivial = case with >= 3 steps; distinct = sha1 of the recorded case")
STORE_TB = [KERNEL, EXTRACT, HARNESS, "hooks H1 (virtual clock) and H7 (controllable Fastrand)",
            "modelled, not verified: one logical shard map (shard choice = hash & mask is not observable sequentially); the event channel as a list "
            "whose delivery order the harness chooses; atomic maintenance operations (an API section interleaving inside removeEntry: before the deadline re-check it is the "
            "stale-visit operation; after it the code now decides and unlinks under the shard lock - fix e4bd381 - and TestVerifExpireOverlap / TestVerifEvictOverlap exercise the overlap); entry pool off; float32 climb amount and doorkeeper verdict are inputs",
            "Go runtime: sync.Mutex as a lock, channels, goroutine scheduling; the shard lock RBMutex is modelled per atomic operation and proved exclusive (C19), the striped hit/miss counters likewise (C16)"]

def store_prop(files, codes, tags, expl, assumptions=None):
    return {"props_files": files, "go_tests": ["TestVerifStore"], "level": "proof", "rule": STORE_RULE,
            "trusted_base": STORE_TB, "assumptions": assumptions or ["entry pool disabled (default configuration)"],
            "project_codes": {"store": codes}, "monitor_tags": tags, "explanation": expl}

PROPS["C01"] = store_prop(["Props/C01.v"], ["0", "1", "2", "5", "8"], ["C01"],
    "refinement of the store model to a last-write map; API results compared step by step with the real Store")
PROPS["C02"] = store_prop(["Props/C02.v"], ["3", "4", "6", "7", "11"], ["C02"],
    "per-entry accounting invariant over the store model for every delivery order (Proof/StoreAcc.v); white-box dumps (resident set, policy weights, regions) compared after every step",
    ["entry pool disabled, no secondary cache",
     "clock readings passed to maintenance steps are non-decreasing",
     "theorem guard cost_ok: a delivered cost event leaves the entry's policy-side cost within 1..MaxSize (always true when the cost events of one entry arrive in send order; "
     "two updates of one entry overtaking each other are covered by the replay and the drained-state monitors only: c02_*_partial)"])
PROPS["C05"] = store_prop(["Props/C05.v"], ["3", "4", "11"], ["C05"],
    "conservation law entries stored = resident + deletes in flight + notifications over all histories and delivery orders (Proof/StoreInv.v); listener log of the model vs the real removal listener, per delivered event and per tick",
    ["entry pool disabled, no secondary cache (demotion to a secondary cache is not a removal)", "Close is excluded: it empties the map without notifications by design"])
PROPS["C05"]["go_tests"] = ["TestVerifStore", "TestVerifEvictOverlap", "TestVerifExpireOverlap"]
PROPS["C05"]["impl_only_traces"] = ["evictoverlap", "expireoverlap"]
PROPS["C05"]["rule"] = STORE_RULE + ("; plus evictions that wait for a shard lock while the entry is overwritten in place inside that critical section (the harness holds the lock, "
                                     "waits until the evicting goroutine is parked inside removeEntry, overwrites with the store's own setShardWithoutLock, releases): the listener must be told the value the entry left with")
PROPS["C06"] = store_prop(["Props/C06.v"], ["0", "1", "8", "3", "4", "11"], ["C06"],
    "Set/loader admission rules over the store model; Set results, immediate visibility and removal reasons compared with the real Store")
PROPS["C06"]["go_tests"] = ["TestVerifStore", "TestVerifDoorkeeper", "TestVerifExpireOverlap", "TestVerifStorePool"]
PROPS["C06"]["impl_only_traces"] = ["expireoverlap", "storepool"]
PROPS["C06"]["rule"] = STORE_RULE + ("; plus the doorkeeper of one shard of a real Store (Doorkeeper on, no capacity pressure): 100..2600 Sets of non-resident keys of that shard (first and "
                                     "repeated sightings in three mixes that drive the reset counter past the filter capacity and grow the shard map past the filter's capacity), deletes, "
                                     "overwrites and Exist probes; verdict, reset counter, map size, filter capacity / bits / probes and the number of bits set compared after every operation")
PROPS["C06"]["trusted_base"] = STORE_TB + ["the doorkeeper verdict is an input of the store model; the doorkeeper itself (internal/bf/bf.go and its use in setShardWithoutLock / Shard.set) is a separate "
                                          "model (Model/Bloom.v) compared with the real filter; the float64 sizing of a grown filter is modelled over rationals and only compared, not proved equal"]
PROPS["C16"] = store_prop(["Props/C16.v"], ["5", "6"], ["C16"],
    "counters and views of the model vs Stats/Len/Range/EstimatedSize of the real Store")
PROPS["STORE"] = store_prop([], ["0", "1", "2", "3", "4", "5", "6", "7", "8", "9", "10", "11"], ["C01", "C02", "C03", "C04", "C05", "C06", "C16"], "scratch")

PROPS["C08"] = {
    "props_files": ["Props/C08.v"],
    "go_tests": ["TestVerifRing"],
    "level": "proof",
    "rule": "random interleavings of 2..5 threads on the real Buffer, stepped one atomic operation at a time through hook H2 "
            "(Add, drain, Free with the batch handed back late in 60% of the cases), followed by quiescence and 17 solo Adds; "
            "non-trivial = >= 3 steps; distinct = sha1 of the recorded schedule",
    "trusted_base": [KERNEL, EXTRACT, HARNESS, "hook H2 (yield before every atomic operation of buffer.go, build tag verif)",
                     "modelled, not verified: sequentially consistent atomics (Go sync/atomic), unsafe.Pointer slots as integers"],
    "assumptions": ["Go's sync/atomic operations are sequentially consistent"],
    "explanation": "ring model at single-atomic granularity; the real Buffer is stepped along the same schedules and compared after every step",
}

PROPS["C20"] = {
    "props_files": ["Props/C20.v"],
    "go_tests": ["TestVerifWait", "TestVerifWaitConcurrent", "TestVerifWaitFullQueue", "TestVerifWaitBusyPolicyLock"],
    "level": "proof",
    "rule": "deterministic: real Wait() calls blocked in goroutines, Set/Delete traffic, and the real drainWrite() applied to harness-chosen "
            "batch boundaries (1..4 items or everything) so that markers fall at every position relative to a batch; concurrent: 2..8 goroutines "
            "doing Set+Wait against the real maintenance goroutine; Set+Wait while the policy lock is busy for 30..90 ms (held directly, or by SaveCache writing to a slow writer) with nothing written afterwards; "
            "non-trivial = >= 3 steps; distinct = sha1 of the case",
    "trusted_base": STORE_TB + ["Go channels are FIFO; close(chan) wakes every receiver"],
    "assumptions": ["the maintenance goroutine keeps being scheduled while the cache is open"],
    "project_codes": {"wait": ["12", "13", "1", "2", "6", "7"]},
    "impl_only_traces": ["waitconc", "waitfull", "waitbusy"],
    "monitor_tags": ["C20"],
    "explanation": "barrier and release theorems over the store model's queue; released waiters per batch compared with the real Wait",
}

PROPS["C16"]["go_tests"] = ["TestVerifStore", "TestVerifCountersConcurrent", "TestVerifCounter"]
PROPS["C16"]["impl_only_traces"] = ["counters"]
PROPS["C16"]["rule"] = STORE_RULE + "; plus a concurrent run: groups of 8 goroutines released together on the same absent key of a loading cache (leaders and joiners), mixed with plain Gets, then quiescent comparison of Stats/Len/EstimatedSize with the harness's own tally; plus the real striped counter (1, 2 or 4 stripes) stepped one atomic operation at a time by 2..5 goroutines (hook H9) and compared with the model after every step"

PROPS["C08"]["go_tests"] = ["TestVerifRing", "TestVerifRingStore", "TestVerifRingLateBatch"]
PROPS["C08"]["impl_only_traces"] = list(PROPS["C08"].get("impl_only_traces", [])) + ["ringlate"]
PROPS["C08"]["rule"] += "; plus the same stepping through real Store.Get calls on one stripe, with schedules that park 12..17 readers between their tail CAS and the publication of their slot before another reader takes over the drain"

PROPS["C20"]["timeout"] = {"quick": 300, "thorough": 1200}

PROPS["C10"] = {
    "props_files": ["Props/C10.v"],
    "go_tests": ["TestVerifClose", "TestVerifCloseOverlap", "TestVerifParkedWritersHoldNoLock"],
    "go_tests_root": ["TestVerifRootClose"],
    "level": "proof",
    "rule": "scenario runs on the real code: 200..1450 goroutines (Set/Delete/loading Get/Wait), more in-flight writes than the write queue holds with "
            "maintenance stalled in half of the trials, Close at a random moment; plain, loading and hybrid stores; then inertness and a goroutine "
            "census (runtime.Stack) ; plus all four public cache kinds through the builders; a trial is non-trivial by construction; "
            "plus overlapping Close calls while other callers hold shard write locks (as a loader does), stepped against Model/CloseFine.v: after every "
            "hold / release / new Close call the harness waits until every Close call is parked in sync.RWMutex.Lock or has returned (goroutine states), "
            "then compares every shard's closed flag, the store flag and who has returned, and probes every reachable shard once any Close has returned; "
            "plus the assumption of the blocking-point model that a writer parks on the write queue holding no lock: nine kinds of calls that queue a policy event are started on a full, undrained queue and, once parked in Store.send, every shard lock and the policy lock must be free (TryLock)",
    "trusted_base": [KERNEL, HARNESS, "modelled, not verified: Go select/channel/context semantics (a select with a ready ctx.Done case never blocks); "
                     "goroutine scheduling fairness (a runnable goroutine eventually runs); wall-clock timeouts of 3-10 s in the scenario runs decide 'returned'"],
    "assumptions": ["the Go scheduler is fair", "a call that has not returned 10 s after Close counts as blocked forever (search direction only)"],
    "impl_only_traces": ["close", "rootclose", "parkedwriters"],
    "explanation": "blocking-point model: after the context is cancelled every blocked process has an enabled finishing step; store model is inert after Close; "
                   "the real code is exercised with calls racing Close and a goroutine census",
    "timeout": {"quick": 600, "thorough": 1500},
}

PROPS["C13"] = {
    "props_files": ["Props/C13.v"],
    "go_tests": ["TestVerifFlight", "TestVerifFlightRecycle", "TestVerifStore", "TestVerifLateJoiner", "TestVerifForgetUnderShardLock"],
    "impl_only_traces": ["flightrecycle", "latejoiner", "forgetlock"],
    "project_codes": {"store": ["8"]},
    "monitor_tags": ["C13"],
    "level": "proof",
    "rule": "scripted schedules on the real Group.Do: callers entering on 3 keys while loads are in flight (the loader is the leader's yield point, "
            "joiners are detected through the record's dups counter), loads ending with ok / error / panic / Goexit, call records being re-issued "
            "from the pool across consecutive loads; in 40% of the loads the leader is parked (hook H10) between the end of its function and the cleanup of its call and "
            "one or two callers arrive in that window; in half of the loads the function forgets its key first, as LoadingStore.Get does (they then lead, otherwise they join); "
            "plus TestVerifLateJoiner on real loading stores (plain and hybrid): Delete of the freshly loaded key and a new loading Get inside that window; "
            "non-trivial = >= 3 steps; distinct = sha1 of the schedule",
    "trusted_base": [KERNEL, EXTRACT, HARNESS, "hook H10 (schedule point before the cleanup of a finished singleflight call)",
                     "modelled, not verified: sync.WaitGroup / sync.Mutex / sync.Pool (the pool may hand out any record that was put back), panics and Goexit as outcome codes"],
    "assumptions": ["the Forget of the leader's function and the release of the shard lock are one step of the model (the Forget runs under the shard lock; a caller that has not yet looked the key up will find the stored value)"],
    "explanation": "single-flight invariants over all schedules of the model; results per caller compared with the real Group",
}

PERSIST_RULE = ("real Persist of caches of 20..140 cost units (empty, TTL and non-TTL entries, mixed costs, any uptime, adaptive split moved in a third "
                "of the streams), then real Recover into a fresh cache of the clean stream (same size, later, smaller, other version), of prefixes "
                "(random and the last 8 offsets) and of damaged copies (single-bit flips, byte substitutions, multi-byte and double damage, header "
                "region over-sampled); every stream is also decoded with the real gob decoder into the model's block operations; "
                "non-trivial = a variant with >= 3 steps; distinct = sha1 of the variant")
PERSIST_TB = [KERNEL, EXTRACT, HARNESS, "hook H1 (virtual wall clock)",
              "modelled, not verified: encoding/gob (the harness maps bytes to blocks with the real decoder), xxh3 (a block is 'checksum-valid' or not), "
              "the timer wheel and sketch side effects of Recover (covered by C04 / C17)"]
PROPS["C11"] = {"props_files": ["Props/C11.v"], "go_tests": ["TestVerifPersist"], "level": "proof", "rule": PERSIST_RULE,
                "trusted_base": PERSIST_TB, "assumptions": ["the receiving cache is fresh", "hypothesis 'detects' is not needed for C11 (clean streams)"],
                "monitor_tags": ["C11"], "explanation": "round-trip theorems on the block model; real Persist/Recover replayed"}
PROPS["C12"] = {"props_files": ["Props/C12.v"], "go_tests": ["TestVerifPersist"], "level": "proof", "rule": PERSIST_RULE,
                "trusted_base": PERSIST_TB, "assumptions": ["'detects': a block whose checksum verifies carries saved data (accidental damage does not collide xxh3); validated on every damaged block seen"],
                "monitor_tags": ["C12"], "explanation": "damage theorems on the block model; every damaged stream replayed on real LoadCache"}

HYB_RULE = ("random histories on a real hybrid Store (secondary cache scripted, one worker gated through hook H4, events delivered by the harness in "
            "FIFO or overtaking order): Set/SetWithTTL/Get-with-promotion/loading Get/Delete, evictions handed to the worker, secondary Set failing "
            "in 20-30% of the worker steps, MaxSize 2..15; non-trivial = >= 3 steps; distinct = sha1 of the case")
HYB_TB = STORE_TB + ["hook H4 (worker schedule points)", "admission probability 1 and a hand-off queue that never fills (256) in the exercised cases"]
PROPS["C14"] = {"props_files": ["Props/C14.v"], "go_tests": ["TestVerifHybrid", "TestVerifHybridSlow", "TestVerifSlowSecondaryDeadline", "TestVerifHybridPool"], "level": "proof",
                "rule": HYB_RULE + "; plus scenario runs with the real maintenance goroutine and worker in which the secondary Set of an evicted entry is held open while a foreground Set or Delete of the same key is issued",
                "impl_only_traces": ["hybridslow", "slowsecdeadline", "hybridpool"], "trusted_base": HYB_TB,
                "assumptions": ["secondary operations are atomic with respect to the shard lock as in the code (Get/Set/Delete under the shard lock or by the single worker)"],
                "monitor_tags": ["C14"], "explanation": "hybrid extension of the store model; every read compared with the real hybrid store and with a last-completed-write shadow"}
PROPS["C15"] = {"props_files": ["Props/C15.v"], "go_tests": ["TestVerifHybrid", "TestVerifHybridSlow", "TestVerifHybridPool"], "impl_only_traces": ["hybridslow", "hybridpool"], "level": "proof",
                "rule": HYB_RULE + "; plus scenario runs with the real maintenance goroutine and worker in which the secondary Set of an evicted entry is held open and the key is read meanwhile",
                "trusted_base": HYB_TB,
                "assumptions": ["admission probability 1, hand-off queue not full"],
                "monitor_tags": ["C15"], "explanation": "demotion and boundedness on the hybrid model; secondary contents and hand-off queue compared with the real store"}

PROPS["C18"] = {
    "props_files": ["Props/C18.v"],
    "go_tests": ["TestVerifKeys", "TestVerifCollidingLoads"],
    "go_alt": {"gocmd": "go1.26.8", "tests": ["TestVerifKeys", "TestVerifCollidingLoads"], "env": {"VERIF_TRACE_SUFFIX": "126"}},
    "impl_only_traces": ["collide", "collide126"],
    "level": "proof",
    "rule": "Get/Set/Delete histories on real Stores instantiated for 17 key types (all integer widths, bool, uintptr, named int, string, arrays, "
            "structs with and without padding, pointers, a struct with a string field under a StringKey function, and an int store under a "
            "StringKey function that maps every key onto three strings = forced hash collisions); every key is built along three construction paths "
            "(literal, through strconv / heap objects / re-used slice slots / interfaces, fresh or shared string backing arrays); extreme values and "
            "zero values included; run with the default toolchain (pre-1.24 hasher: xxh3 over the key's memory) and with go1.26.8 (maphash.Comparable); "
            "non-trivial = >= 3 steps; distinct = sha1 of the recorded case",
    "trusted_base": [KERNEL, EXTRACT, HARNESS,
                     "modelled, not verified: the Go map inside a shard as an association list keyed by the harness's numbering of distinct keys (Go's own ==); "
                     "the hash of a key is an input of the model",
                     "NOT proved (runtime part, exercised only): that hasher.Hash is a function of the == class of a key for the key types the property lists "
                     "(xxh3 over the key's memory / maphash.Comparable, struct layout and padding, string headers)"],
    "assumptions": ["the hasher is deterministic on == classes (monitored on every operation of the harness: same numbered key, same hash and shard)",
                    "padding bytes of struct keys are zero (Go zeroes allocations; keys forged through unsafe are outside the claim)"],
    "monitor_tags": ["C18"],
    "explanation": "sharding by any hash function refines a flat map (all histories, all hash functions); the real Store's results, hashes and shard indices replayed on the model, "
                   "hash determinism and no-aliasing monitored on the real code under two toolchains",
}

PROPS["C09"] = {
    "props_files": ["Props/C09.v"],
    "go_tests": ["TestVerifPolicy", "TestVerifClimber"],
    "go_tests_root": ["TestVerifRootAdmission"],
    "level": "other",
    "rule": "policy correspondence as for C07 (the admission decision is part of every replayed Set); plus MEASUREMENTS on real caches through the public builders: "
            "hot set (10/30/50% of MaxSize) read with a 50/80% share while fresh never-read keys are inserted, 40*MaxSize operations, hit ratio of the hot set over the last quarter "
            "(threshold 0.90; observed minimum 0.95-0.98); Zipf(0.8/1.0/1.2) traces of 60*MaxSize operations over a universe of 20*MaxSize keys against an LRU of the same size "
            "(threshold LRU-0.01, LRU-0.03 below MaxSize 1000; observed theine >= LRU+0.019); MaxSize 50..5000 (quick) and up to 100000 (thorough); plain and loading caches; "
            "fresh caches and caches first used by eight goroutines running the same workload concurrently; a change of phase (mixed warm-up, about 350 samples of reads only, "
            "then 50% one-off insertions for 600*MaxSize operations, eight warm-ups per size); and the real climb() stepped against the float32 model (300 chains of 20..700 samples: "
            "drifting ratios, long all-hit periods then a collapse, changes at the restart threshold, extreme counters, states overwritten with arbitrary bit patterns)",
    "trusted_base": [KERNEL, EXTRACT, HARNESS,
                     "the convergence / hit-ratio claims are measured, not proved (statistical thresholds with margins chosen from the unchanged tree)",
                     "the hill climber's float32 arithmetic is modelled with Flocq's IEEE 754 binary32 (Model/Climber.v) and compared bit for bit with the real climb(); the four climber theorems "
                     "rest on the standard library's real-number axioms through Flocq (ClassicalDedekindReals.sig_forall_dec, sig_not_dec, Classical_Prop.classic, "
                     "FunctionalExtensionality.functional_extensionality_dep); assumed: Go evaluates float32 expressions in binary32 round-to-nearest-even without fusing (amd64), "
                     "float-to-int conversion out of range yields -2^63 (amd64)"],
    "assumptions": ["thresholds: hot-set hit ratio >= 0.90, Zipf hit ratio >= LRU - 0.01 (0.03 for MaxSize < 1000)"],
    "impl_only_traces": ["admission"],
    "monitor_tags": ["C09"],
    "timeout": {"quick": 900, "thorough": 3000},
    "explanation": "admission-rule theorems on the policy model; hit ratios measured on the real caches",
}

PROPS["C19"] = {
    "props_files": ["Props/C19.v"],
    "go_tests": ["TestVerifRBMutex", "TestVerifFlightRecycle"],
    "race_tests": ["TestVerifRace", "TestVerifCountersConcurrent", "TestVerifWaitConcurrent", "TestVerifHybridSlow"],
    "level": "proof",
    "rule": "lock table regenerated from the sources on every run (one row per field access reachable from the public API); the real RBMutex with 1..16 slots stepped one atomic operation at a time by 2..5 goroutines "
            "under random schedules (sticky bursts, reluctant holders) and compared with the model after every step, with a direct writer/reader overlap monitor; in addition, as a search for a failing schedule only, "
            "the concurrent harnesses (all public operations of plain, loading and hybrid stores incl. Persist, Range, Wait, Close with a removal listener) are built with -race and run",
    "trusted_base": [KERNEL, "go/lockscrape (go/ssa based must-lockset analysis: intraprocedural dataflow, entry locksets as greatest fixpoint over call sites, function values resolved through "
                     "struct fields and parameters, reachability from the root package) - a bug there can hide an unguarded access",
                     "type-level abstraction: accesses and locks are named Type.field; that the lock instance belongs to the object accessed is not checked",
                     "classification tables in go/lockscrape/main.go: confined types and fields (thread-owned or handed over by channel / atomic publication), ownership sites "
                     "(entry already removed from its shard map), constructors (New* and helpers called only from them), entry-pool-only branches",
                     "Go memory model (sequentially consistent sync/atomic), sync.Mutex / sync.RWMutex taken as correct locks; RBMutex is no longer trusted: its Lock/RLock/RUnlock/Unlock are modelled per atomic operation (Model/RBMutex.v), proved exclusive for every schedule, and the real code is stepped against the model through hook H8 (TryLock / TryRLock of RBMutex are not used by the cache and not modelled)"],
    "assumptions": ["entry pool disabled", "the race detector runs are a search aid, not part of the proof"],
    "impl_only_traces": ["race", "counters", "waitconc", "hybridslow", "flightrecycle"],
    "monitor_tags": ["C19"],
    "timeout": {"quick": 900, "thorough": 2400},
    "explanation": "lockset theorem over a table scraped from the sources; discipline of the current table checked by computation in Coq; mutual exclusion of the reader-biased shard lock proved for all schedules and the real lock stepped against that model; -race runs as search",
}


def c19_extra(pid, tier, seed, outdir):
    """Evaluate the discipline on the scraped table outside Coq as well, to name the offending fields and sites."""
    import os, collections
    tsv = os.path.join(os.path.dirname(os.path.dirname(os.path.dirname(os.path.abspath(__file__)))), "build", "gen", "locks.tsv")
    out = {"broken": [], "coverage": {}}
    if not os.path.exists(tsv):
        out["broken"].append("lock table was not generated (go/lockscrape failed)")
        return out
    acc = collections.defaultdict(list)
    kinds = collections.Counter()
    for l in open(tsv):
        if l.startswith("#") or not l.strip():
            continue
        f, k, ls, fn, pos = l.rstrip("\n").split("\t")
        kinds[k] += 1
        if k in "rw":
            acc[f].append((k, set(x for x in ls.split(",") if x), fn.split("internal.")[-1], pos))
    bad = []
    for f, a in sorted(acc.items()):
        writes = [x for x in a if x[0] == "w"]
        if not writes:
            continue
        locks = set(l.split(":")[0] for x in a for l in x[1])
        if not any(all(any(l.split(":")[0] == L for l in x[1]) for x in a) and all((L + ":x") in x[1] for x in writes) for L in locks):
            sites = ["%s %s [%s] %s" % (x[0], x[3], ",".join(sorted(x[1])), x[2]) for x in a if x[0] == "w" or not x[1]][:6]
            bad.append("%s: no lock guards all of its %d plain accesses (%d writes); e.g. %s" % (f, len(a), len(writes), "; ".join(sites)))
    for b in bad[:5]:
        out["broken"].append("lock discipline: " + b)
    out["coverage"] = {"lock_table_rows": sum(kinds.values()), "lock_table_kinds": dict(kinds), "fields_with_plain_accesses": len(acc),
                       "fields_breaking_discipline": len(bad)}
    return out


PROPS["C19"]["extra"] = c19_extra

PROPS["C02"]["go_tests"] = ["TestVerifStore", "TestVerifWaitFullQueue", "TestVerifSplitWriters"]
PROPS["C02"]["impl_only_traces"] = ["waitfull", "splitwriters"]
PROPS["C02"]["rule"] = STORE_RULE + ("; plus writers of the same keys split where the code splits a write - map update under the shard lock, sending of the policy event later - with other clients' "
                                     "Sets / Deletes, other halves and deliveries (FIFO or overtaking) in between; after everything is sent and delivered the accounting must be exact "
                                     "(the store model sends the event with the map update: this is the check of that abstraction on the real code)")
for _p in ("C11", "C12", "C04"):
    PROPS[_p]["timeout"] = {"quick": 900, "thorough": 3000}
PROPS["C01"]["go_tests"] = ["TestVerifStore", "TestVerifPoolAlias", "TestVerifRangeConcurrent", "TestVerifRBMutex", "TestVerifLateJoiner", "TestVerifStorePool", "TestVerifForgetUnderShardLock"]
PROPS["C01"]["impl_only_traces"] = ["poolalias", "rangeconc", "latejoiner", "storepool", "forgetlock"]
PROPS["C01"]["rule"] = STORE_RULE + "; plus, for the entry-pool configurations (outside the model), concurrent runs of 8 goroutines on pool-enabled plain and loading stores of 4..13 entries over 48 keys, checking that every value read for a key was written or loaded for that key; and Range racing Delete / Set of the keys of the shard it is visiting (plain and pool): no visit of a key whose Delete has returned, no value older than a returned Set; and a loading Get that starts after a Delete of a freshly loaded key has returned, while the leader of that load is parked (hook H10) before the cleanup of its singleflight call: it must load again"
PROPS["C01"]["assumptions"] = ["the theorems cover the entry pool disabled; with the pool enabled the property is exercised by monitors only: a concurrent harness ('never a value of another key') and the deterministic store histories re-run with the pool on (TestVerifStorePool: every value read is the latest write of its key)"]

# store-level part of C04 / C03: ticks and reads of the real Store under the deterministic driver
PROPS["C04"]["go_tests"] = ["TestVerifWheel", "TestVerifStore", "TestVerifPersist", "TestVerifMaintenanceSurvivesBusyLock", "TestVerifExpireOverlap"]
PROPS["C04"]["impl_only_traces"] = ["busylock", "expireoverlap"]
PROPS["C04"]["env"] = {"VERIF_PERSIST": "restore-only"}
PROPS["C04"]["project_codes"] = {"store": ["4", "11"]}
PROPS["C04"]["monitor_tags"] = ["C04"]
PROPS["C04"]["rule"] += "; plus the store histories (" + STORE_RULE[:120] + "...): after every maintenance tick no entry whose deadline has passed and whose events have been delivered may still be resident; plus entries restored by LoadCache (saving cache up for 0..73 min, loaded 0..4.9 h later): ticks played one finest-wheel tick after the deadlines of up to 10 restored entries, same criterion"
PROPS["C03"]["go_tests"] = ["TestVerifExpiry", "TestVerifStore"]
PROPS["C03"]["project_codes"] = {"store": ["0", "5", "8"]}
PROPS["C03"]["monitor_tags"] = ["C03"]

PROPS["C03"]["go_tests"] = ["TestVerifExpiry", "TestVerifStore", "TestVerifTickerStall", "TestVerifMaintenanceSurvivesBusyLock", "TestVerifSlowSecondaryDeadline", "TestVerifReadsSeeValueAndDeadlineTogether"]
PROPS["C03"]["impl_only_traces"] = ["tickerstall", "busylock", "slowsecdeadline", "readatomic"]
PROPS["C03"]["rule"] += "; plus the real ticker goroutine: the policy lock is held by the harness for 2.5 s of real time while the virtual clock jumps 40 s past a 31 s deadline, then Get must miss; maintenance must still reclaim a 1 s entry after the policy lock was busy across two wake-ups; a copy in the secondary tier whose deadline passes during a slow secondary lookup must not be served (hybrid Get and loading Get)"


# the public wrappers and builders of the root package (cache.go, builder.go): every cache kind against a plain oracle
for _p in ("C01", "C03", "C06", "C13", "C14", "C16"):
    PROPS[_p]["go_tests_root"] = list(PROPS[_p].get("go_tests_root", [])) + ["TestVerifRootAPI"]
    PROPS[_p]["impl_only_traces"] = list(PROPS[_p].get("impl_only_traces", [])) + ["rootapi"]
    PROPS[_p]["rule"] += ("; plus the public API of the root package (plain, Cost function, entry pool, Doorkeeper, both loading builders, HybridCache and both "
                          "HybridLoadingCache builder orders) driven against a plain oracle in regimes that do not depend on the eviction policy, under a virtual clock")

# harness time limits: a loaded machine (several thorough runs side by side) has taken the thorough flight harness past 900 s;
# a limit only guards against a wedged harness, so it is generous everywhere
for _p in list(PROPS):
    _t = dict(PROPS[_p].get("timeout", {}))
    _t["quick"] = max(_t.get("quick", 900), 900)
    _t["thorough"] = max(_t.get("thorough", 900), 3000)
    PROPS[_p]["timeout"] = _t
