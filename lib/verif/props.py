"""props.py — per-property configuration of the checks."""

KERNEL = "Coq 8.16.1 kernel (coqc; vm_compute used in examples and in-kernel replay; no native_compute)"
EXTRACT = "extraction with ExtrOcamlBasic only (no Extract Constant); OCaml 4.13.1 driver.ml (decimal parsing via zarith)"
HARNESS = "Go white-box harness injected with -overlay, build tag verif; check driver (python)"

PROPS = {
    "C17": {
        "props_files": ["Props/C17.v"],
        "go_tests": ["TestVerifSketch"],
        "level": "proof",
        "rule": "random op sequences (Add/Addn/Estimate/EnsureCapacity/reset/dump) on the real CountMinSketch over "
                "adversarial hash pools (0, 2^64-1, many keys in one block) and table sizes 64..2^24; a case is "
                "non-trivial if it has >= 3 steps; distinct = distinct sha1 of the whole recorded case",
        "trusted_base": [KERNEL, EXTRACT, HARNESS,
                         "modelled, not verified: Go uint64/uint arithmetic as Z with explicit mod 2^64; bits.OnesCount64 as nibble-wise popcount; slices as lists"],
        "assumptions": ["uint is 64 bits wide (amd64)", "table sizes up to 2^60 words in the theorems; up to 2^24 exercised on the code"],
        "explanation": "theorems over all hashes / all op sequences; model tied to code by replaying recorded traces of the real sketch on the extracted model and a sample in-kernel",
    },
}
