"""props.py — per-property configuration of the checks."""

KERNEL = "Coq 8.16.1 kernel (coqc; vm_compute used in examples and in-kernel replay; no native_compute)"
EXTRACT = "extraction with ExtrOcamlBasic only (no Extract Constant); OCaml 4.13.1 driver.ml (decimal parsing via zarith)"
HARNESS = "Go white-box harness injected with -overlay, build tag verif; check driver (python)"

PROPS = {
    "C17": {
        "props_files": ["Props/C17.v"],
        "go_tests": ["TestVerifSketch"],
        "level": "proof",
        "rule": "random op sequences (Add/Addn/Estimate/EnsureCapacity/reset/dump) on the real CountMinSketch over "
                "adversarial hash pools (0, 2^64-1, many keys in one block) and table sizes 64..2^24; a case is "
                "non-trivial if it has >= 3 steps; distinct = distinct sha1 of the whole recorded case",
        "trusted_base": [KERNEL, EXTRACT, HARNESS,
                         "modelled, not verified: Go uint64/uint arithmetic as Z with explicit mod 2^64; bits.OnesCount64 as nibble-wise popcount; slices as lists"],
        "assumptions": ["uint is 64 bits wide (amd64)", "table sizes up to 2^60 words in the theorems; up to 2^24 exercised on the code"],
        "explanation": "theorems over all hashes / all op sequences; model tied to code by replaying recorded traces of the real sketch on the extracted model and a sample in-kernel",
    },
    "C03": {
        "props_files": ["Props/C03.v"],
        "go_tests": ["TestVerifExpiry"],
        "level": "proof",
        "rule": "generated (set time, ttl, optional second Set, read time, cached-clock lag) tuples through the real Store/LoadingStore "
                "API under virtual time: TTLs 1ns..MaxInt64 (overflowing), read instants within +-2ns of the deadline, of 2^30ns tick "
                "boundaries and of the 30s window edge; non-trivial = case with >= 3 steps; distinct = sha1 of the case",
        "trusted_base": [KERNEL, EXTRACT, HARNESS, "hook H1 (virtual clock, build tag verif)",
                         "modelled, not verified: int64 arithmetic as Z with explicit two's-complement wrap; time.Duration as int64 ns"],
        "assumptions": ["the cached clock is refreshed at least once per 30 s window (ticker goroutine gets scheduled; after the F1 fix it no longer waits for the policy lock)",
                        "clock readings below 2^62 ns (146 years of uptime)"],
        "explanation": "theorems about saturatingAdd (regenerated from clock.go) and the read decision; Store-level behaviour compared step by step with the model",
    },
    "C04": {
        "props_files": ["Props/C04.v"],
        "go_tests": ["TestVerifWheel"],
        "level": "proof",
        "rule": "random schedule / re-schedule / deschedule / advance sequences on the real TimerWheel with explicit times: deadlines on "
                "all five levels, +-2ns around every slot boundary and wrap-around, advances of 0..several rotations; non-trivial = >= 3 steps",
        "trusted_base": [KERNEL, EXTRACT, HARNESS,
                         "modelled, not verified: the intrusive doubly linked slot lists as sub-sequences of one flat list; int64 as Z"],
        "assumptions": ["callers schedule only deadlines after wheel time (established by the store paths, see C04 store-level part)",
                        "advance times are non-decreasing and below 2^62 ns"],
        "explanation": "wheel invariants proved over all op sequences; model replayed against the real TimerWheel",
    },
    "C07": {
        "props_files": ["Props/C07.v"],
        "go_tests": ["TestVerifPolicy"],
        "level": "proof",
        "rule": "random insert / access / remove / cost-update / forced-climb sequences on the real TinyLfu for capacities 1..2000 "
                "(tiny ones over-represented), costs skewed to 1, window capacity +-1 and the full capacity, sketch contents and "
                "admission coin varied; non-trivial = >= 3 steps; distinct = sha1 of the recorded case",
        "trusted_base": [KERNEL, EXTRACT, HARNESS, "hook H7 (controllable Fastrand, build tag verif)",
                         "modelled, not verified: float32 hill-climber arithmetic (the raw int(amount) is an input of the model, recomputed by the harness; "
                         "the float32 initial window / protected capacities are read from the constructor); intrusive lists as Coq lists; uint as Z mod 2^64"],
        "assumptions": ["costs are in 1..capacity (C06 covers rejection above capacity)"],
        "explanation": "structural invariant proved over all op sequences of the policy model; model replayed step by step against the real TinyLfu",
    },
    "STORE": {
        "props_files": [],
        "go_tests": ["TestVerifStore"],
        "level": "proof",
        "rule": "x", "trusted_base": [], "assumptions": [], "explanation": "scratch entry to exercise the store model",
    },
}
