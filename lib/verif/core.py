"""core.py — build, run, compare, report.  Shared by every property check."""
import os, sys, json, subprocess, time, hashlib, re, fcntl, shutil, glob

ROOT = os.path.dirname(os.path.dirname(os.path.dirname(os.path.abspath(__file__))))
REPO = os.environ.get("VERIF_REPO", "/repo")   # the override exists only to try seeded changes in scratch worktrees
BUILD = os.path.join(ROOT, "build")
COQ = os.path.join(ROOT, "coq")
EVID = os.path.join(ROOT, "evidence")
GUARD = "verif"

ALLOWED_AXIOMS = {
    # axioms declared by the standard library itself; each use is reported in the evidence
    "Coq.Logic.FunctionalExtensionality.functional_extensionality_dep",
    "functional_extensionality_dep",
    "Coq.Logic.ProofIrrelevance.proof_irrelevance",
    "Coq.Logic.Eqdep.Eq_rect_eq.eq_rect_eq",
    "Eqdep.Eq_rect_eq.eq_rect_eq",
    "Coq.Logic.Classical_Prop.classic",
    "classic",
    "Classical_Prop.classic",
    "FunctionalExtensionality.functional_extensionality_dep",
    # the standard library's axioms of the real numbers (Flocq's specification of IEEE 754 arithmetic rests on them;
    # used only by the float32 hill-climber theorems of C09 / C07)
    "ClassicalDedekindReals.sig_not_dec",
    "ClassicalDedekindReals.sig_forall_dec",
    "Coq.Reals.ClassicalDedekindReals.sig_not_dec",
    "Coq.Reals.ClassicalDedekindReals.sig_forall_dec",
}
FORBIDDEN = re.compile(
    r"\b(Admitted|admit|Axiom|Axioms|Parameter|Parameters|Conjecture|Conjectures|Admit Obligations|"
    r"Unset Guard Checking|Unset Positivity Checking|Unset Universe Checking|bypass_check|"
    r"type-in-type|impredicative-set|native_compute)\b")


def goenv():
    e = dict(os.environ)
    e.update(GOFLAGS="-mod=mod", GOPROXY="off", GOSUMDB="off", GOTOOLCHAIN="local",
             CGO_ENABLED=e.get("CGO_ENABLED", "1"))
    return e


def sh(cmd, cwd=None, timeout=1200, env=None, inp=None):
    t0 = time.time()
    try:
        p = subprocess.run(cmd, cwd=cwd, env=env, input=inp, stdout=subprocess.PIPE, stderr=subprocess.STDOUT,
                           timeout=timeout, text=True, shell=isinstance(cmd, str))
        return p.returncode, p.stdout, time.time() - t0
    except subprocess.TimeoutExpired as ex:
        out = ex.stdout if isinstance(ex.stdout, str) else (ex.stdout or b"").decode(errors="replace")
        return 124, out + "\n[timeout after %ss]" % timeout, time.time() - t0


class Lock:
    def __enter__(self):
        os.makedirs(BUILD, exist_ok=True)
        self.f = open(os.path.join(BUILD, ".lock"), "w")
        fcntl.flock(self.f, fcntl.LOCK_EX)
        return self

    def __exit__(self, *a):
        fcntl.flock(self.f, fcntl.LOCK_UN)
        self.f.close()


# ---------------------------------------------------------------- generation
def gen():
    """Regenerate coq/Gen/*.v from /repo's working tree (constants, kernels, lock table)."""
    out = os.path.join(BUILD, "gen")
    os.makedirs(out, exist_ok=True)
    os.makedirs(os.path.join(COQ, "Gen"), exist_ok=True)
    rc, log, _ = sh(["go", "run", ".", "-repo", REPO, "-out", out], cwd=os.path.join(ROOT, "go", "goscrape"),
                    env=goenv(), timeout=300)
    res = {"ok": rc == 0, "log": log[-4000:], "changed": [], "untranslated": []}
    if rc != 0:
        return res
    # lock table: static must-locksets of every field access (go/lockscrape, go/ssa)
    rc2, tsv, _ = sh(["go", "run", ".", REPO], cwd=os.path.join(ROOT, "go", "lockscrape"), env=goenv(), timeout=600)
    res["lockscrape_ok"] = rc2 == 0
    if rc2 == 0:
        open(os.path.join(out, "locks.tsv"), "w").write(tsv)
        open(os.path.join(out, "Access.v"), "w").write(access_v(tsv))
    else:
        res["lockscrape_log"] = tsv[-2000:]
    for f in sorted(glob.glob(os.path.join(out, "*.v"))):
        dst = os.path.join(COQ, "Gen", os.path.basename(f))
        new = open(f).read()
        old = open(dst).read() if os.path.exists(dst) else None
        if new != old:
            open(dst, "w").write(new)
            res["changed"].append(os.path.basename(f))
    rep = os.path.join(out, "report.json")
    if os.path.exists(rep):
        res.update(json.load(open(rep)))
    return res


def access_v(tsv):
    """Turn the lockscrape table into Gallina (Gen/Access.v)."""
    kinds = {"r": "KRead", "w": "KWrite", "a": "KAtomic", "i": "KInit", "p": "KPool", "c": "KConfined", "o": "KOwned"}
    rows = []
    for l in tsv.splitlines():
        if not l or l.startswith("#"):
            continue
        parts = l.split("\t")
        if len(parts) != 5:
            continue
        f, k, ls, fn, pos = parts
        locks = []
        for x in ls.split(","):
            if x:
                name, mode = x.rsplit(":", 1)
                locks.append('("%s", %s)' % (name, "MX" if mode == "x" else "MS"))
        short = fn.split("internal.")[-1].replace('"', "")
        rows.append('  mkA "%s" %s [%s] "%s %s"' % (f, kinds[k], "; ".join(locks), pos, short))
    bl = []
    for l in tsv.splitlines():
        if not l.startswith("#blocksite\t"):
            continue
        parts = l.split("\t")
        if len(parts) != 5:
            continue
        _, what, ls, fn, pos = parts
        locks = []
        for x in ls.split(","):
            if x:
                name, mode = x.rsplit(":", 1)
                locks.append('("%s", %s)' % (name, "MX" if mode == "x" else "MS"))
        short = fn.split("internal.")[-1].replace('"', "")
        bl.append('  ("%s", [%s], "%s %s")' % (what.replace('"', ""), "; ".join(locks), pos, short))
    blocking = ("\n(* every point at which a goroutine can park on a channel send (a send, a select without default that sends, a call of a\n"
                "   function that contains one, transitively), with the locks certainly held there *)\n"
                "Definition blocking_sites : list (string * list (string * lmode) * string) :=\n[\n" + ";\n".join(bl) + "\n].\n")
    return ("(* Gen/Access.v - generated by go/lockscrape from /repo on every run; do not edit.\n"
            "   One row per struct-field access of package internal reachable from the public API:\n"
            "   field, kind, locks certainly held (must-lockset), site. *)\n"
            "From Coq Require Import String List.\nFrom Verif Require Import Model.Lockset.\nImport ListNotations.\nOpen Scope string_scope.\n\n"
            "Definition accesses : list access :=\n[\n" + ";\n".join(rows) + "\n].\n" + blocking)


# ---------------------------------------------------------------- coq
def coq_makefile():
    mk = os.path.join(COQ, "Makefile")
    cp = os.path.join(COQ, "_CoqProject")
    if not os.path.exists(mk) or os.path.getmtime(mk) < os.path.getmtime(cp):
        rc, log, _ = sh(["coq_makefile", "-f", "_CoqProject", "-o", "Makefile"], cwd=COQ)
        if rc != 0:
            raise RuntimeError("coq_makefile failed: " + log)


def coq_make(targets=None, timeout=3000):
    coq_makefile()
    cmd = ["make", "-j16"] + (targets or [])
    rc, log, dt = sh(cmd, cwd=COQ, timeout=timeout)
    failed = re.findall(r'File "\./([^"]+)", line (\d+)', log)
    return {"ok": rc == 0, "log": log[-6000:], "wall_s": dt, "failed_at": failed[:3]}


def scan_forbidden():
    bad = []
    for f in glob.glob(os.path.join(COQ, "**", "*.v"), recursive=True):
        txt = open(f).read()
        # strip comments (non-nested is enough for our sources; nested handled by loop)
        prev = None
        while prev != txt:
            prev = txt
            txt = re.sub(r"\(\*[^*(]*(?:\*(?!\))[^*(]*|\((?!\*)[^*(]*)*\*\)", " ", txt)
        txt = re.sub(r'"(?:[^"]|"")*"', '""', txt)   # string literals cannot contain vernacular or tactics
        for m in FORBIDDEN.finditer(txt):
            bad.append("%s: %s" % (os.path.relpath(f, COQ), m.group(0)))
    cp = open(os.path.join(COQ, "_CoqProject")).read()
    for flag in ("-type-in-type", "-impredicative-set", "-noinit"):
        if flag in cp:
            bad.append("_CoqProject: " + flag)
    return bad


def props_check(pid, files):
    """Compile the property files on their own and parse Print Assumptions."""
    theorems, closed, axioms, logs = [], 0, [], []
    ok = True
    for rel in files:
        src = open(os.path.join(COQ, rel)).read()
        names = re.findall(r"^\s*(?:Theorem|Corollary)\s+(\w+)", src, re.M)
        theorems += names
        rc, log, _ = sh(["coqc", "-Q", ".", "Verif", rel], cwd=COQ, timeout=900)
        logs.append(log[-3000:])
        if rc != 0:
            ok = False
            continue
        closed += len(re.findall(r"Closed under the global context", log))
        for blk in re.findall(r"Axioms:\n((?:.+\n?)+?)(?=\n\S|\Z)", log):
            for ln in blk.splitlines():
                # one axiom per non-indented line (its type may continue on indented lines)
                m = re.match(r"^([A-Za-z_][\w.']*)\s*(:|$)", ln)
                if m and m.group(1) != "Axioms":
                    axioms.append(m.group(1))
        n_print = len(re.findall(r"^\s*Print Assumptions\s+(\w+)", src, re.M))
        if n_print < len(names):
            ok = False
            logs.append("missing Print Assumptions for some theorem in " + rel)
    bad_ax = sorted(set(a for a in axioms if a not in ALLOWED_AXIOMS))
    return {"ok": ok and not bad_ax, "theorems": theorems, "closed": closed,
            "axioms": sorted(set(axioms)), "bad_axioms": bad_ax, "log": "\n".join(logs)[-4000:]}


def extract_build():
    """Extract the executable models to OCaml and build the replay driver."""
    d = os.path.join(BUILD, "ocaml")
    os.makedirs(d, exist_ok=True)
    drv = os.path.join(d, "driver")
    vo = os.path.join(COQ, "Model", "Dispatch.vo")
    srcs = [vo, os.path.join(ROOT, "ocaml", "driver.ml"), os.path.join(COQ, "Extract", "Extract.v")]
    if os.path.exists(drv) and all(os.path.getmtime(drv) >= os.path.getmtime(s) for s in srcs):
        return {"ok": True, "log": "up to date"}
    shutil.copy(os.path.join(COQ, "Extract", "Extract.v"), os.path.join(d, "Extract.v"))
    rc, log, _ = sh(["coqc", "-Q", COQ, "Verif", "Extract.v"], cwd=d, timeout=600)
    if rc != 0:
        return {"ok": False, "log": log[-3000:]}
    shutil.copy(os.path.join(ROOT, "ocaml", "driver.ml"), os.path.join(d, "driver.ml"))
    rc, log2, _ = sh(["ocamlfind", "ocamlopt", "-w", "-a", "-package", "zarith", "-linkpkg",
                      "model.mli", "model.ml", "driver.ml", "-o", "driver.new"], cwd=d, timeout=600)
    if rc != 0:
        return {"ok": False, "log": (log + log2)[-3000:]}
    os.replace(os.path.join(d, "driver.new"), drv)
    return {"ok": True, "log": "rebuilt"}


# ---------------------------------------------------------------- go harness
def overlay():
    rep = {}
    for f in glob.glob(os.path.join(ROOT, "go", "harness", "*.go")):
        rep[os.path.join(REPO, "internal", os.path.basename(f))] = f
    for f in glob.glob(os.path.join(ROOT, "go", "harness_root", "*.go")):
        rep[os.path.join(REPO, os.path.basename(f))] = f
    p = os.path.join(BUILD, "overlay.json")
    json.dump({"Replace": rep}, open(p, "w"))
    return p


def go_build(pkg="internal", race=False, gocmd="go"):
    ov = overlay()
    name = pkg.replace("/", "_").replace(".", "root") + ("_race" if race else "") + ("_" + gocmd if gocmd != "go" else "") + ".test"
    out = os.path.join(BUILD, name)
    cmd = [gocmd, "test", "-c", "-vet=off", "-tags", GUARD, "-overlay", ov, "-o", out]
    if race:
        cmd.append("-race")
    cmd.append("./" + pkg if pkg != "." else ".")
    rc, log, dt = sh(cmd, cwd=REPO, env=goenv(), timeout=900)
    return {"ok": rc == 0, "log": log[-4000:], "bin": out, "wall_s": dt}


def run_harness(binp, tests, outdir, seed, tier, timeout=1500, extra_env=None, cwd=None):
    os.makedirs(outdir, exist_ok=True)
    e = goenv()
    e.update(VERIF_OUT=outdir, VERIF_SEED=str(seed), VERIF_TIER=tier)
    if extra_env:
        e.update(extra_env)
    pat = "^(" + "|".join(tests) + ")$"
    rc, log, dt = sh([binp, "-test.run", pat, "-test.count=1", "-test.timeout", "%ds" % timeout, "-test.v"],
                     cwd=cwd or os.path.join(REPO, "internal"), env=e, timeout=timeout + 60)
    return {"ok": rc == 0, "log": log[-6000:], "full_log": log, "wall_s": dt}


def run_driver(trace, timeout=3000):
    drv = os.path.join(BUILD, "ocaml", "driver")
    rc, log, dt = sh([drv, trace], timeout=timeout)
    m = re.search(r"SUMMARY cases=(\d+) ops=(\d+) mismatches=(\d+) bad_cases=(\d+) percode=(\S*)", log)
    res = {"ok": rc == 0 and m is not None, "wall_s": dt, "mismatch_lines": [l for l in log.splitlines() if l.startswith("MISMATCH")][:60]}
    if m:
        pc = {}
        for kv in m.group(5).split(","):
            if ":" in kv:
                k, _, v = kv.partition(":")
                pc[k] = int(v)
        res.update(cases=int(m.group(1)), ops=int(m.group(2)), mismatches=int(m.group(3)), bad_cases=int(m.group(4)), percode=pc)
    else:
        res["log"] = log[-2000:]
    return res


def read_trace(path, max_cases=None):
    """Parse a trace into cases: list of dict(init=[...], ops=[(ins, outs)], viol=[...])."""
    cases, stats = [], {}
    cur = None
    with open(path) as f:
        for line in f:
            if line.startswith("I "):
                if max_cases is not None and len(cases) >= max_cases:
                    break
                cur = {"init": line[2:].split(), "ops": [], "viol": [], "notes": []}
                cases.append(cur)
            elif line.startswith("O ") and cur is not None:
                a, _, b = line[2:].partition("|")
                cur["ops"].append((a.split(), b.split()))
            elif line.startswith("V ") and cur is not None:
                cur["viol"].append(line[2:].strip())
            elif line.startswith("# STATS"):
                for kv in line[8:].split():
                    k, _, v = kv.partition("=")
                    try:
                        stats[k] = int(v)
                    except ValueError:
                        pass
    return cases, stats


def scan_trace(path):
    """One pass: count cases/ops, distinct case hashes, implementation-side monitor violations."""
    n_cases = n_ops = 0
    hashes = set()
    h = None
    viol = []
    stats = {}
    nontriv = 0
    cur_ops = 0
    caseno = 0

    def fin():
        nonlocal nontriv
        if h is not None:
            d = h.hexdigest()
            if d not in hashes and cur_ops >= 3:
                nontriv += 1
            hashes.add(d)
    with open(path) as f:
        for line in f:
            c = line[:2]
            if c == "I ":
                fin()
                h = hashlib.sha1(line.encode())
                n_cases += 1
                caseno += 1
                cur_ops = 0
            elif c == "O ":
                n_ops += 1
                cur_ops += 1
                if h is not None:
                    h.update(line.encode())
            elif c == "V ":
                viol.append((caseno, line[2:].strip()))
            elif line.startswith("# STATS"):
                for kv in line[8:].split():
                    k, _, v = kv.partition("=")
                    try:
                        stats[k] = stats.get(k, 0) + int(v)
                    except ValueError:
                        pass
    fin()
    return {"cases": n_cases, "ops": n_ops, "distinct": len(hashes), "distinct_nontrivial": nontriv,
            "violations": viol, "stats": stats}


def kernel_sample(trace, pid, max_cases=6, max_ops=60):
    """Evaluate a small sample of the recorded cases inside Coq (vm_compute), cross-checking extraction."""
    cases, _ = read_trace(trace, max_cases=max_cases)
    if not cases:
        return {"ok": True, "cases": 0}
    d = os.path.join(BUILD, "cases")
    os.makedirs(d, exist_ok=True)
    name = "cases_%s" % pid
    def zl(xs):
        return "[" + "; ".join("(%s)" % x for x in xs) + "]"
    lines = ["From Coq Require Import ZArith List.", "From Verif Require Import Model.Dispatch.",
             "Import ListNotations.", "Open Scope Z_scope."]
    n = 0
    for k, c in enumerate(cases):
        ops = c["ops"][:max_ops]
        if any(len(a) + len(b) > 400 for a, b in ops):
            ops = [(a, b) for a, b in ops if len(a) + len(b) <= 400]
            # dropping an op is fine only if it has no effect on state: keep prefix before first drop instead
            ops = []
            for a, b in c["ops"][:max_ops]:
                if len(a) + len(b) > 400:
                    break
                ops.append((a, b))
        tr = "[" + ";\n   ".join("(%s, %s)" % (zl(a), zl(b)) for a, b in ops) + "]"
        lines.append("Definition t%d : list (list Z * list Z) := %s." % (k, tr))
        lines.append("Definition m%d := Eval vm_compute in mismatches (%s) %s t%d." % (k, c["init"][0], zl(c["init"][1:]), k))
        lines.append("Print m%d." % k)
        n += len(ops)
    open(os.path.join(d, name + ".v"), "w").write("\n".join(lines) + "\n")
    rc, log, dt = sh(["coqc", "-Q", COQ, "Verif", name + ".v"], cwd=d, timeout=600)
    good = len(re.findall(r"m\d+ = \[\]", log))
    return {"ok": rc == 0 and good == len(cases), "cases": len(cases), "ops": n, "wall_s": dt,
            "log": "" if rc == 0 and good == len(cases) else log[-3000:]}


# ---------------------------------------------------------------- findings
def load_findings():
    p = os.path.join(ROOT, "known_findings.json")
    if not os.path.exists(p):
        return {"known": [], "fixed": []}
    return json.load(open(p))


# ---------------------------------------------------------------- evidence
def write_evidence(pid, ev):
    os.makedirs(EVID, exist_ok=True)
    p = os.path.join(EVID, pid + ".json")
    tmp = p + ".tmp"
    json.dump(ev, open(tmp, "w"), indent=1)
    os.replace(tmp, p)


def write_replay(pid, seed, obj):
    d = os.path.join(BUILD, "replays")
    os.makedirs(d, exist_ok=True)
    p = os.path.join(d, "%s-seed%d.json" % (pid, seed))
    json.dump(obj, open(p, "w"), indent=1)
    return p


def setup():
    t0 = time.time()
    with Lock():
        g = gen()
        if not g["ok"]:
            print("gen failed:\n" + g["log"]); return 1
        m = coq_make()
        if not m["ok"]:
            print("coq make failed:\n" + m["log"]); return 1
        x = extract_build()
        if not x["ok"]:
            print("extraction/ocaml failed:\n" + x["log"]); return 1
        b = go_build("internal")
        if not b["ok"]:
            print("go harness build failed:\n" + b["log"]); return 1
    print("setup ok in %.0fs" % (time.time() - t0))
    return 0


def run_check(pid, tier, seed, replay=None):
    from verif import props as P
    spec = P.PROPS[pid]
    t0 = time.time()
    notes = []
    violations = []      # (kind, description, replay-object)
    broken = []          # proof/correspondence obligations that no longer check
    cov = {}

    with Lock():
        g = gen()
        forb = scan_forbidden()
        mk = coq_make([f.replace(".v", ".vo") for f in spec["props_files"]] + ["Model/Dispatch.vo"]) if g["ok"] else {"ok": False, "log": "gen failed: " + g["log"], "failed_at": []}
        pc = props_check(pid, spec["props_files"]) if mk["ok"] else {"ok": False, "theorems": [], "closed": 0, "axioms": [], "bad_axioms": [], "log": ""}
        xb = extract_build() if os.path.exists(os.path.join(COQ, "Model", "Dispatch.vo")) else {"ok": False, "log": "model not compiled"}
        gb = go_build(spec.get("go_pkg", "internal"))
    chk = None
    if tier == "thorough" and mk["ok"] and not replay:
        # independent re-check of the compiled property files and everything they depend on
        mods = ["Verif." + f[:-2].replace("/", ".") for f in spec["props_files"]]
        rc_c, log_c, dt_c = sh(["coqchk", "-silent", "-o", "-Q", COQ, "Verif"] + mods, cwd=COQ, timeout=2400)
        ax = re.search(r"\* Axioms:(.*?)\n\s*\n", log_c, re.S)
        chk = {"ok": rc_c == 0, "wall_s": round(dt_c, 1), "axioms": (ax.group(1).strip() if ax else "?"),
               "summary": log_c[log_c.find("CONTEXT SUMMARY"):][:800] if "CONTEXT SUMMARY" in log_c else log_c[-800:]}
        if rc_c != 0:
            broken.append("coqchk rejects the compiled development: " + log_c[-600:])
        elif chk["axioms"] not in ("<none>",):
            # coqchk lists the axioms of every loaded library; only standard-library axioms named in ALLOWED_AXIOMS may appear
            names = [a.strip() for a in chk["axioms"].split("\n") if a.strip()]
            badc = [a for a in names if a not in ALLOWED_AXIOMS and a.split(".", 1)[-1] not in ALLOWED_AXIOMS]
            if badc or chk["axioms"] == "?":
                broken.append("coqchk reports axioms: " + chk["axioms"][:300])
    if forb:
        broken.append("forbidden construct in development: " + "; ".join(forb[:5]))
    if not g["ok"]:
        broken.append("goscrape failed: " + g["log"][-500:])
    if not mk["ok"]:
        broken.append("proof obligation no longer checks: make failed at %s" % (mk.get("failed_at") or mk["log"][-400:]))
    elif not pc["ok"]:
        broken.append("property file does not check or depends on unlisted axioms %s: %s" % (pc["bad_axioms"], pc["log"][-400:]))
    if not gb["ok"]:
        broken.append("harness does not build against /repo: " + gb["log"][-800:])

    # ---- run implementation, record traces
    outdir = os.path.join(BUILD, "traces", pid)
    shutil.rmtree(outdir, ignore_errors=True)
    os.makedirs(outdir, exist_ok=True)
    scans, drv, ks = {}, {}, {}
    hres = None
    if gb["ok"]:
        if replay:
            shutil.copy(replay, os.path.join(outdir, os.path.basename(replay)))
        else:
            if spec["go_tests"]:
                hres = run_harness(gb["bin"], spec["go_tests"], outdir, seed, tier, timeout=spec.get("timeout", {}).get(tier, 900), extra_env=spec.get("env"))
                if not hres["ok"]:
                    broken.append("harness run failed: " + hres["log"][-1500:])
            if spec.get("race_tests"):
                with Lock():
                    gbr2 = go_build("internal", race=True)
                if not gbr2["ok"]:
                    broken.append("harness does not build with -race: " + gbr2["log"][-800:])
                else:
                    hrr = run_harness(gbr2["bin"], spec["race_tests"], outdir, seed, tier, timeout=spec.get("timeout", {}).get(tier, 900))
                    if "DATA RACE" in hrr["full_log"]:
                        rep = hrr["full_log"][hrr["full_log"].index("WARNING: DATA RACE"):][:3000]
                        first = [l.strip() for l in rep.splitlines() if l.strip().startswith(("Read at", "Write at", "Previous", "github.com", "/repo"))][:8]
                        violations.append(("race", "C19: the race detector reports a data race: " + " | ".join(first)[:600], {"report": rep}))
                    elif not hrr["ok"]:
                        broken.append("race harness run failed: " + hrr["log"][-1500:])
            if spec.get("go_alt"):
                alt = spec["go_alt"]
                with Lock():
                    gba = go_build("internal", gocmd=alt["gocmd"])
                if not gba["ok"]:
                    broken.append("harness does not build with %s: %s" % (alt["gocmd"], gba["log"][-800:]))
                else:
                    hra = run_harness(gba["bin"], alt["tests"], outdir, seed, tier, timeout=spec.get("timeout", {}).get(tier, 900), extra_env=alt.get("env"))
                    if not hra["ok"]:
                        broken.append("harness run with %s failed: %s" % (alt["gocmd"], hra["log"][-1500:]))
            if spec.get("go_tests_root"):
                with Lock():
                    gbr = go_build(".")
                if not gbr["ok"]:
                    broken.append("root-package harness does not build against /repo: " + gbr["log"][-800:])
                else:
                    hr2 = run_harness(gbr["bin"], spec["go_tests_root"], outdir, seed, tier, timeout=spec.get("timeout", {}).get(tier, 900), cwd=REPO)
                    if not hr2["ok"]:
                        broken.append("root-package harness run failed: " + hr2["log"][-1500:])
        for tr in sorted(glob.glob(os.path.join(outdir, "*.trace"))):
            name = os.path.basename(tr)[:-6]
            sc = scan_trace(tr)
            scans[name] = sc
            for caseno, v in sc["violations"]:
                mt = re.match(r"(C\d+):", v)
                if mt and mt.group(1) not in spec.get("monitor_tags", [pid]):
                    continue
                violations.append(("monitor", "%s case %d: %s" % (name, caseno, v), {"trace": tr, "case": caseno}))
            if xb["ok"] and sc["ops"] > 0 and name not in spec.get("impl_only_traces", []):
                d = run_driver(tr)
                drv[name] = d
                if not d["ok"]:
                    broken.append("model driver failed on %s: %s" % (name, d.get("log", "")))
                elif d["mismatches"] and name in spec.get("project_codes", {}) and not any(c in d.get("percode", {}) for c in spec["project_codes"][name]):
                    notes.append("divergence outside this property's projection on %s: %s" % (name, d.get("percode")))
                    d["outside_projection"] = d["mismatches"]
                    d["mismatches"] = 0
                elif d["mismatches"]:
                    broken.append("correspondence model<->code fails on trace %s: %d mismatching steps in %d cases, first: %s"
                                  % (name, d["mismatches"], d["bad_cases"], d["mismatch_lines"][:1]))
                if tier == "quick" or True:
                    k = kernel_sample(tr, pid + "_" + name)
                    ks[name] = k
                    if not k["ok"]:
                        broken.append("in-kernel replay (vm_compute) disagrees on %s: %s" % (name, k.get("log", "")[-600:]))
        if not xb["ok"]:
            broken.append("extraction/driver build failed: " + xb["log"][-600:])
        if not scans and not replay:
            broken.append("harness produced no trace")

    # ---- property-specific extra step
    extra = {}
    if "extra" in spec and gb["ok"]:
        extra = spec["extra"](pid, tier, seed, outdir) or {}
        for v in extra.get("violations", []):
            violations.append(v)
        for b in extra.get("broken", []):
            broken.append(b)

    # ---- findings
    kf = load_findings()
    known = [k for k in kf.get("known", []) if k["property"] == pid]
    unlisted = []
    seen_known = []
    for kind, desc, rep in violations:
        hit = None
        for k in known:
            if re.search(k["match"], desc):
                hit = k
                break
        if hit:
            if hit["id"] not in seen_known:
                seen_known.append(hit["id"])
        else:
            unlisted.append((kind, desc, rep))

    wall = time.time() - t0
    tot_ops = sum(s["ops"] for s in scans.values())
    tot_cases = sum(s["cases"] for s in scans.values())
    samples = []
    for tr in sorted(glob.glob(os.path.join(outdir, "*.trace")))[:2]:
        cs, _ = read_trace(tr, max_cases=1)
        if cs:
            samples.append({"trace": os.path.basename(tr), "init": cs[0]["init"],
                            "first_ops": [" ".join(a) + " | " + " ".join(b)[:200] for a, b in cs[0]["ops"][:8]]})
    stats = {}
    for s in scans.values():
        for k, v in s["stats"].items():
            stats[k] = stats.get(k, 0) + v
    obligations = len(pc["theorems"]) + len(drv) + len(ks)
    discharged = (pc["closed"] if pc["ok"] else 0) + sum(1 for d in drv.values() if d["ok"] and not d.get("mismatches")) + sum(1 for k in ks.values() if k["ok"])
    # closed counts Print Assumptions that printed "Closed"; theorems with allowed axioms count too
    if pc["ok"]:
        discharged = len(pc["theorems"]) + sum(1 for d in drv.values() if d["ok"] and not d.get("mismatches")) + sum(1 for k in ks.values() if k["ok"])
    cov = {
        "obligations": max(obligations, 1),
        "discharged": discharged,
        "checker_cmd": "cd /verif/coq && coq_makefile -f _CoqProject -o Makefile && make -j16 %s && coqc -Q . Verif %s"
                       % (" ".join(f.replace(".v", ".vo") for f in spec["props_files"]), " ".join(spec["props_files"])),
        "trusted_base": spec["trusted_base"] + ["axioms reported by Print Assumptions: " + (", ".join(pc["axioms"]) if pc["axioms"] else "none (Closed under the global context)")],
        "theorems": pc["theorems"],
        "evaluations": max(tot_ops, 1) if tot_ops else 0,
        "distinct_nontrivial": sum(s["distinct_nontrivial"] for s in scans.values()),
        "rule": spec["rule"],
        "samples": samples,
        "traces_validated_against_impl": sum(d.get("cases", 0) for d in drv.values()),
        "steps_compared_model_vs_impl": sum(d.get("ops", 0) for d in drv.values()),
        "mismatching_steps": sum(d.get("mismatches", 0) for d in drv.values()),
        "in_kernel_cases": sum(k.get("cases", 0) for k in ks.values()),
        "in_kernel_ops": sum(k.get("ops", 0) for k in ks.values()),
        "generator_histogram": stats,
        "gen_changed_files": g.get("changed", []),
        "gen_untranslated": g.get("untranslated", []),
        "known_findings_seen": seen_known,
        "coqchk": chk,
        "notes": notes,
        "explanation": spec.get("explanation", ""),
    }
    cov.update(extra.get("coverage", {}))
    ev = {"property_id": pid, "tier": tier if tier in ("quick", "thorough") else "quick", "seed": seed,
          "level": spec["level"], "coverage": cov, "assumptions": spec["assumptions"],
          "wall_s": round(wall, 1), "violations": len(unlisted) + (1 if broken and not unlisted else 0)}
    if not replay:
        write_evidence(pid, ev)

    for kid in seen_known:
        k = [x for x in known if x["id"] == kid][0]
        print("KNOWN-FINDING: property=%s %s" % (pid, k["what"]))
    if unlisted:
        kind, desc, rep = unlisted[0]
        path = write_replay(pid, seed, {"property": pid, "seed": seed, "tier": tier, "kind": kind, "what": desc,
                                        "replay": rep, "all": [d for _, d, _ in unlisted[:20]], "broken_obligations": broken})
        print("check %s: %d violation(s); first: %s" % (pid, len(unlisted), desc))
        print("VIOLATION property=%s replay=%s" % (pid, path))
        return 1
    if broken:
        path = write_replay(pid, seed, {"property": pid, "seed": seed, "tier": tier, "kind": "obligation",
                                        "broken_obligations": broken,
                                        "searched": {"cases": tot_cases, "ops": tot_ops, "monitor_violations": 0}})
        print("check %s: obligations no longer check:" % pid)
        for b in broken:
            print("  - " + b[:1500])
        print("VIOLATION property=%s replay=%s no-failing-input-found" % (pid, path))
        return 1
    print("check %s ok: %d theorems closed, %d cases / %d steps agree with the model, %d in-kernel cases, %.0fs"
          % (pid, len(pc["theorems"]), tot_cases, tot_ops, cov["in_kernel_cases"], wall))
    return 0
